// Shared prelude of every Verus unit (owned by /verif; no code from /repo).
// Everything declared here is an ASSUMPTION about std / core and is listed in
// the evidence's trusted_base by the assumption scan.
#![feature(sized_hierarchy)]
#![feature(panic_internals)]
#![allow(unused_imports, dead_code, unused_variables, unused_mut, non_snake_case)]
use vstd::prelude::*;
use core::marker::PointeeSized;
use vstd::view::View as _;
use std::ops::{Deref, Index, IndexMut};
use std::io;
use vprelude::*;
mod vprelude {
use vstd::prelude::*;
use core::marker::PointeeSized;
use vstd::view::View as _;
verus! {

// AsRef<T>: `as_ref` returns the value named by the spec function of the impl.
#[verifier::external_trait_specification]
#[verifier::external_trait_extension(AsRefSpec via AsRefSpecImpl)]
pub trait ExAsRef<T: PointeeSized>: PointeeSized {
    type ExternalTraitSpecificationFor: core::convert::AsRef<T>;
    spec fn as_ref_spec(&self) -> &T;
    fn as_ref(&self) -> (r: &T)
        ensures r == self.as_ref_spec();
}

// The slice that a Vec<usize> derefs to, as a spec-level value.  ASSUMPTION: for every
// sequence no longer than usize::MAX there is a slice with that view (slices are
// extensional in vstd, so it is unique).
pub uninterp spec fn seq_as_slice(s: Seq<usize>) -> &'static [usize];
pub broadcast axiom fn axiom_seq_as_slice(s: Seq<usize>)
    requires s.len() <= usize::MAX
    ensures (#[trigger] seq_as_slice(s))@ == s;

pub broadcast proof fn lemma_slice_is_seq_as_slice(s: &[usize])
    ensures #[trigger] seq_as_slice(s@) == s,
{
    assert(s@.len() == s.len());   // vstd: spec_slice_len(s) == s@.len(), a usize
    axiom_seq_as_slice(s@);
    assert(seq_as_slice(s@)@ =~= s@);
}

pub proof fn lemma_slice_len_bound_t<T>(s: &[T])
    ensures s@.len() <= usize::MAX,
{
    assert(s@.len() == s.len());
}

pub proof fn lemma_slice_len_bound(s: &[usize])
    ensures s@.len() <= usize::MAX,
{
    assert(s@.len() == s.len());
}

// assert!/assert_eq! failure paths become proof obligations (`requires false`).
#[verifier::external_type_specification]
pub struct ExAssertKind(core::panicking::AssertKind);
pub assume_specification<T: core::fmt::Debug + ?Sized, U: core::fmt::Debug + ?Sized> [core::panicking::assert_failed] (_0: core::panicking::AssertKind, _1: &T, _2: &U, _3: std::option::Option<std::fmt::Arguments<'_>>) -> !
    requires false;

} // verus!
} // mod vprelude
