use sfs_core::array::{Array, Axis};
use std::panic::catch_unwind;
fn main() {
    // F5: view iterator yields again after None
    let a = Array::from_iter(0..12, [2, 3, 2]).unwrap();
    let v = a.get_axis(Axis(0), 0).unwrap();
    let mut it = v.iter();
    let seq: Vec<Option<i32>> = (0..10).map(|_| it.next().copied()).collect();
    println!("F5 [2,3,2] axis 0 pos 0, ten calls: {:?}", seq);
    // F6: zero-dimensional view
    let r = catch_unwind(|| { let b = Array::new(vec![1.0, 2.0, 3.0], 3).unwrap(); b.sum(Axis(0)) });
    println!("F6 sum of 1-D array along axis 0: {:?}", r.map(|x| x.as_slice().to_vec()));
    // F4: axis == dimensions
    let r = catch_unwind(|| { let b = Array::from_iter(0..4, [2, 2]).unwrap(); b.get_axis(Axis(2), 0).is_none() });
    println!("F4 get_axis(Axis(2), 0) on 2x2: {:?}", r);
    // F7: AxisIter len
    let b = Array::from_iter(0..6, [3, 2]).unwrap();
    let mut ai = b.iter_axis(Axis(0));
    let l0 = ai.len(); ai.next(); let l1 = ai.len();
    println!("F7 iter_axis len before/after one next: {} {}", l0, l1);
    // F15: zero-length axis
    let r = catch_unwind(|| { let b: Array<f64> = Array::from_zeros([0, 2]); b.get_axis(Axis(1), 1).is_some() });
    println!("F15 get_axis(Axis(1), 1) on shape [0,2]: {:?}", r);
}
