#!/bin/bash
# Native demonstration of the four C17 defects repaired by e9b3ab6, b4409dc, 7da6308, 34f00c3.
# usage: findings/demo_cli_panics.sh [repo]   -- builds the CLI of <repo> (default /repo) in a scratch target dir,
# runs the failing invocations and prints, per case, PANIC or ok(rc).  Exit 0 iff no invocation panics.
REPO=${1:-/repo}
T=$(mktemp -d /tmp/demo-cli-XXXX)
export CARGO_TARGET_DIR=$T/target CARGO_NET_OFFLINE=true SFS_ALLOW_STDIN=1 RUST_BACKTRACE=0
(cd $REPO && cargo build --offline -q -p sfs-cli 2>/dev/null) || { echo "build failed"; rm -rf $T; exit 2; }
B=$T/target/debug/sfs
cd $T
printf '#SHAPE=<0>\n\n' > z0.sfs
printf '#SHAPE=<3>\n1 2 3\n' > a3.sfs
printf '#SHAPE=<2/3>\n1 2 3 4 5 6\n' > a23.sfs
cat > t.vcf <<'V'
##fileformat=VCFv4.2
##contig=<ID=1,length=1000>
##FORMAT=<ID=GT,Number=1,Type=String,Description="Genotype">
#CHROM	POS	ID	REF	ALT	QUAL	FILTER	INFO	FORMAT	s1	s2	s3
1	10	.	A	C	.	.	.	GT	0/1	1/1	0/0
1	20	.	A	C	.	.	.	GT	0/0	0/1	1/1
V
printf 's1\tA\ns1\tB\n' > dup.txt
bad=0
try() { out=$("$@" 2>&1 >/dev/null </dev/null); rc=$?; if [ $rc -gt 2 ] || echo "$out" | grep -q panicked; then echo "PANIC  $(echo "$*" | sed "s#$B#sfs#") :: $(echo "$out" | grep -A1 -m1 panicked | tr '\n' ' ' | cut -c1-160)"; bad=1; else echo "ok($rc) $(echo "$*" | sed "s#$B#sfs#")"; fi; }
try $B view --mask-monomorphic z0.sfs
try $B view --project-individuals 9223372036854775808 a3.sfs
try $B create --project-individuals 9223372036854775808 t.vcf
try $B create --samples-file dup.txt t.vcf
try $B create --samples s1=A,s2=B,s1=B t.vcf
try $B view --precision 65536 a3.sfs
try $B fold --precision 70000 a3.sfs
try $B stat --statistics sum --precision 70000 a23.sfs
cd /; rm -rf $T
exit $bad
