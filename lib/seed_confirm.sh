#!/bin/bash
# usage: seed_confirm.sh <worktree> <seed-id> <property>
# Confirms a sub-agent's seeded change in its scratch worktree: (1) existing tests pass with the change,
# (2) demo fails with the change, (3) demo passes without it.  Copies patch/demo/notes to /verif/seeded/<id>/.
set -u
WT=$1; ID=$2; PROP=$3
OUT=/verif/seeded/$ID
mkdir -p $OUT
cp $WT/OUT/patch.diff $OUT/patch.diff
cp $WT/OUT/notes.md $OUT/notes.md 2>/dev/null
DEMO=""
[ -f $WT/OUT/demo.rs ] && DEMO=demo.rs && cp $WT/OUT/demo.rs $OUT/
[ -f $WT/OUT/demo.sh ] && DEMO=demo.sh && cp $WT/OUT/demo.sh $OUT/
export CARGO_TARGET_DIR=$WT/target CARGO_NET_OFFLINE=true SFS_ALLOW_STDIN=1
cd $WT
run_demo() {
  if [ "$DEMO" = demo.rs ]; then
    mkdir -p core/examples && cp OUT/demo.rs core/examples/demo.rs
    cargo run --offline -q -p sfs-core --example demo >/tmp/demo-$ID.log 2>&1; rc=$?
    rm -rf core/examples
  else
    bash OUT/demo.sh >/tmp/demo-$ID.log 2>&1; rc=$?
  fi
  return $rc
}
git diff --quiet -- core cli && { echo "$ID: worktree has no change applied"; exit 2; }
cargo test --workspace --offline >/tmp/test-$ID.log 2>&1; t=$?
grep -E "^test result" /tmp/test-$ID.log | tr '\n' ' '
run_demo; with=$?
git diff -- core cli > $WT/.confirm.diff
git apply -R $WT/.confirm.diff
run_demo; without=$?
git apply $WT/.confirm.diff; rm -f $WT/.confirm.diff
echo
echo "$ID: tests_with_change_exit=$t demo_with_change_exit=$with demo_without_change_exit=$without"
python3 - <<PY
import json
ok = ($t == 0 and $with != 0 and $without == 0)
json.dump({"seed_id": "$ID", "property": "$PROP", "confirmed": ok,
           "existing_tests_pass_with_change": $t == 0, "demo_fails_with_change": $with != 0, "demo_passes_without_change": $without == 0,
           "demo": "$DEMO", "confirmed_by": "lib/seed_confirm.sh in scratch worktree $WT (cargo test --workspace --offline; demo with and without the patch)",
           "needs_to_manifest": open("$OUT/notes.md").read()[:1500] if __import__('os').path.exists("$OUT/notes.md") else ""},
          open("$OUT/meta.json", "w"), indent=1)
print("confirmed" if ok else "NOT CONFIRMED")
PY
