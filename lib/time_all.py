#!/usr/bin/env python3
"""run every harness named in the registry once (timeout per harness from argv[1], default 3600 s) and store
status / duration in /verif/kani/timings.json (development aid for choosing the quick tier)"""
import json, os, sys, time
sys.path.insert(0, os.path.dirname(__file__))
import kani_run
from registry import REGISTRY
names = []
for r in REGISTRY.values():
    for n in r.get('kani_quick', []) + r.get('kani_thorough', []) + [x for v in r.get('verus_pairs', {}).values() for x in v]:
        if n not in names:
            names.append(n)
names.append('k_detect_genotype_stream_witness_short_first_chunk')
to = int(sys.argv[1]) if len(sys.argv) > 1 else 3600
t0 = time.time()
r = kani_run.run_harnesses(names, harness_timeout=to, jobs=14, total_timeout=6 * 3600)
out = {n: {'status': h['status'], 'failed': h['checks_failed'], 'ignored': h.get('checks_ignored'), 'checks': h['checks_total'],
           'dur_s': (h['duration_ms'] or 0) / 1000.0, 'solver_s': h['solver_s'], 'symex_s': h['symex_s'],
           'failed_checks': h['failed_checks'][:3]} for n, h in r['harnesses'].items()}
json.dump({'wall_s': time.time() - t0, 'status': r['status'], 'reason': r['reason'][:2000], 'harnesses': out},
          open(os.path.join(os.path.dirname(os.path.dirname(__file__)), 'kani', 'timings.json'), 'w'), indent=1)
print('done', r['status'], round(time.time() - t0), 's')
