#!/usr/bin/env python3
"""Self-validation (DESIGN.md section 9): apply deliberate breaks (and harmless edits)
to a scratch copy of /repo, run the unit / harness that should notice, and record the
outcome in /verif/selftest.log.  Nothing is written to /repo.

usage: selftest.py [id-substring ...]      (no argument: all entries of selftest_cases.py)
"""
import json
import os
import shutil
import subprocess
import sys
import time

HERE = os.path.dirname(os.path.abspath(__file__))
VERIF = os.path.dirname(HERE)
sys.path.insert(0, HERE)
import kani_run  # noqa: E402
import verus_run  # noqa: E402
from selftest_cases import CASES  # noqa: E402

SCRATCH = '/tmp/sfs-selftest-repo'


def fresh_scratch():
    if os.path.exists(SCRATCH):
        shutil.rmtree(SCRATCH)
    subprocess.run(['rsync', '-a', '--exclude', 'target', '--exclude', '.git', '/repo/', SCRATCH + '/'], check=True)


def main():
    want = sys.argv[1:]
    cases = [c for c in CASES if not want or any(w in c['id'] for w in want)]
    fresh_scratch()
    log = open(os.path.join(VERIF, 'selftest.log'), 'a')
    summary = []
    try:
        for c in cases:
            path = os.path.join(SCRATCH, c['file'])
            orig = open(path).read()
            if c['old'] not in orig:
                line = f"{c['id']}: SKIPPED (anchor text not found in {c['file']})"
                print(line)
                log.write(line + '\n')
                continue
            open(path, 'w').write(orig.replace(c['old'], c['new'], 1))
            t0 = time.time()
            outcome = []
            try:
                for unit in c.get('verus', []):
                    r = verus_run.run_unit(os.path.join(VERIF, 'verus', 'units', unit + '.vrs'), repo=SCRATCH)
                    outcome.append((f'verus:{unit}', r['status'], [f['obligation'] for f in r['failures']][:4] or r['reason'][:200]))
                if c.get('kani'):
                    r = kani_run.run_harnesses(c['kani'], repo=SCRATCH, harness_timeout=c.get('timeout', 900), jobs=12)
                    fails = {n: [fc['description'] for fc in h['failed_checks']][:3] for n, h in r['harnesses'].items() if h['checks_failed']}
                    outcome.append(('kani', r['status'], fails or r['reason'][:300]))
            finally:
                open(path, 'w').write(orig)
            expect = c.get('expect', 'failed')   # 'failed' for breaks, 'ok' for harmless edits
            got = 'failed' if any(o[1] == 'failed' for o in outcome) else ('inconclusive' if any(o[1] == 'inconclusive' for o in outcome) else 'ok')
            verdict = 'AS-EXPECTED' if got == expect else 'UNEXPECTED'
            line = f"{time.strftime('%F %T')} {c['id']} [{c.get('property','')}] expect={expect} got={got} {verdict} ({time.time()-t0:.0f}s) :: {json.dumps(outcome)[:900]}"
            print(line)
            log.write(line + '\n')
            log.flush()
            summary.append((c['id'], verdict))
    finally:
        shutil.rmtree(SCRATCH, ignore_errors=True)
    bad = [s for s in summary if s[1] != 'AS-EXPECTED']
    print(f'{len(summary) - len(bad)}/{len(summary)} as expected')
    return 1 if bad else 0


if __name__ == '__main__':
    sys.exit(main())
