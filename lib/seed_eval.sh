#!/bin/bash
# usage: seed_eval.sh <seed-id> <property> [quick|thorough]   (env VERIF_ONLY=verus|kani)
# Applies /verif/seeded/<id>/patch.diff to a scratch copy of /repo, runs the property's check against
# it, prints the outcome.  /repo itself is not touched.
ID=$1; PROP=$2; TIER=${3:-quick}
S=/tmp/seedeval-$ID
rm -rf $S; rsync -a --exclude target --exclude .git /repo/ $S/
(cd $S && patch -p1 -s < /verif/seeded/$ID/patch.diff) || { echo "$ID: patch failed"; exit 2; }
cd /verif
VERIF_REPO=$S VERIF_EVIDENCE_DIR=/tmp/seedeval-ev VERIF_REPLAY_DIR=/tmp/seedeval-replay ./check $PROP $TIER > /tmp/seedeval-$ID.out 2>&1; rc=$?
echo "== $ID [$PROP $TIER ${VERIF_ONLY:-all}] exit=$rc"
grep -E "^VIOLATION|^INCONCLUSIVE|^KNOWN|obligations=" /tmp/seedeval-$ID.out | cut -c1-400
rm -rf $S
exit $rc
