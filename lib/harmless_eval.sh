#!/bin/bash
# usage: harmless_eval.sh <diff> <property>...   applies a behaviour-preserving refactoring to a scratch copy and
# runs the properties' quick checks; exit 1 (VIOLATION) would be a false alarm; 0 = pass, 2 = inconclusive
D=$1; shift
S=/tmp/harmless-$(basename $D .diff)
rm -rf $S; rsync -a --exclude target --exclude .git /repo/ $S/
(cd $S && patch -p1 -s < $D) || { echo "$(basename $D): patch failed"; rm -rf $S; exit 3; }
for P in "$@"; do
  VERIF_REPO=$S VERIF_EVIDENCE_DIR=/tmp/seedeval-ev VERIF_REPLAY_DIR=/tmp/seedeval-replay /verif/check $P quick > /tmp/harmless-$(basename $D .diff)-$P.out 2>&1; rc=$?
  echo "$(basename $D) $P exit=$rc $(grep -E '^VIOLATION|^INCONCLUSIVE' /tmp/harmless-$(basename $D .diff)-$P.out | head -2 | cut -c1-260 | tr '\n' ' ')"
done
rm -rf $S
