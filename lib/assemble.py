"""Assemble a Verus unit file from a unit template (verus/units/*.vrs) and the
real source text under /repo.

Directive language (lines starting with `//@`); everything else is plain Verus
text owned by /verif (spec functions, lemmas, trait specifications):

  //@unit NAME
  //@item  FILE "HEADER PREFIX" [nth=N]        copy a struct/enum/const/type item (docs + derives other than Clone/Copy dropped)
  //@whole FILE "HEADER PREFIX" [nth=N]        copy a whole impl/fn item verbatim (docs dropped)
  //@open  FILE "HEADER PREFIX" [nth=N]        copy an impl header verbatim and open its block
  //@fn NAME [ret=IDENT] [attr="#[...]"]       copy fn NAME of the open impl; body verbatim with insertions:
  //@ spec                                       following lines are inserted between signature and body
  //@ loop N [ghost=IDENT]                       following lines are inserted in front of the body of the N-th loop;
  //@                                            ghost=IDENT additionally inserts `IDENT: ` after `in` of a `for`
  //@ at before|after "TEXT" [nth=N]             following lines are inserted before/after the N-th occurrence of TEXT in the body
  //@endfn
  //@close                                     close the impl block
  //@freefn FILE NAME [ret=IDENT]              like //@fn for a free function at module level (ends with //@endfn)

Only insertions are made into extracted text; every insertion is wrapped in
/*+*/ ... /*-*/ markers and `verify_identity` strips them and compares the
result with the source text byte for byte.
"""
import hashlib
import os
import re
import shlex

from rsx import (AnchorLost, Source, apply_insertions, find_block, find_fn,
                 loops_in, strip_docs_and_derives, strip_insertions, INS_OPEN, INS_CLOSE)

REPO = os.environ.get('VERIF_REPO', '/repo')


class TemplateError(Exception):
    pass


class Assembled:
    def __init__(self):
        self.lines = []          # output lines
        self.origin = []         # per output line: None or (repo_file, line_no)
        self.region = []         # per output line: name of fn region or None
        self.functions = []      # dicts: name, file, first_line, last_line, sha256, qual
        self.items = []          # verbatim non-fn items
        self.dropped = []        # what the extraction dropped
        self.unit = None
        self.identity_checks = []  # (label, assembled_text, source_text)

    def emit(self, text, origin=None, region=None):
        """origin: (file, first_line) for verbatim text -- lines are counted
        through the text, insertion markers do not contain newlines that belong
        to the source"""
        for k, line in enumerate(text.split('\n')):
            self.lines.append(line)
            self.origin.append(None)
            self.region.append(region)
        # origin mapping is filled by emit_mapped

    def emit_mapped(self, text, file, first_line, region=None):
        """text = source text with insertions; map each output line back to the
        source line it starts in."""
        src_line = first_line
        depth_ins = 0
        buf = ''
        i = 0
        cur_origin = src_line
        out_lines = []
        # walk characters, tracking whether we are inside an insertion
        line_origin = src_line if True else None
        started_in_ins = False
        while i < len(text):
            if text.startswith(INS_OPEN, i):
                depth_ins += 1
                buf += INS_OPEN
                i += len(INS_OPEN)
                continue
            if text.startswith(INS_CLOSE, i):
                depth_ins -= 1
                buf += INS_CLOSE
                i += len(INS_CLOSE)
                continue
            c = text[i]
            if c == '\n':
                out_lines.append((buf, line_origin))
                buf = ''
                if depth_ins == 0:
                    src_line += 1
                    line_origin = src_line
                else:
                    line_origin = None if depth_ins else src_line
            else:
                buf += c
                if depth_ins == 0 and line_origin is None and c.strip():
                    line_origin = src_line
            i += 1
        out_lines.append((buf, line_origin))
        for buf, lo in out_lines:
            self.lines.append(buf)
            self.origin.append((file, lo) if lo is not None else None)
            self.region.append(region)

    def text(self):
        return '\n'.join(self.lines) + '\n'


def _parse_args(rest):
    toks = shlex.split(rest)
    pos, kw = [], {}
    for t in toks:
        if re.match(r'^[a-z]+=', t):
            k, v = t.split('=', 1)
            kw[k] = v
        else:
            pos.append(t)
    return pos, kw


def name_return(sig, ident):
    """insert `(ident: ` ... `)` around the return type of a signature text"""
    depth = 0
    arrow = None
    i = 0
    # find the params' closing paren first
    m0 = re.search(r'\bfn\s+[A-Za-z0-9_]+', sig)
    start = m0.end()
    ad = 0
    while start < len(sig):
        ch = sig[start]
        if ch == '<':
            ad += 1
        elif ch == '>' and sig[start - 1] != '-':
            ad -= 1
        elif ch == '(' and ad == 0:
            break
        start += 1
    for i in range(start, len(sig)):
        if sig[i] in '([':
            depth += 1
        elif sig[i] in ')]':
            depth -= 1
            if depth == 0:
                break
    rest = sig[i + 1:]
    m = re.match(r'\s*->\s*', rest)
    if not m:
        return [], None
    ty_start = i + 1 + m.end()
    # return type ends at `where` at depth 0 or end of signature
    d = 0
    j = ty_start
    end = len(sig.rstrip())
    while j < len(sig):
        ch = sig[j]
        if ch in '([<':
            d += 1
        elif ch in ')]>' and not (ch == '>' and sig[j - 1] == '-'):
            d -= 1
        elif d == 0 and re.match(r'\bwhere\b', sig[j:]) and not (sig[j - 1].isalnum() or sig[j - 1] == '_'):
            end = len(sig[:j].rstrip())
            break
        j += 1
    return [(ty_start, f'({ident}: '), (end, ')')], (ty_start, end)


def assemble(template_path, repo=None):
    repo = repo or REPO
    out = Assembled()
    srcs = {}

    def src_of(rel):
        if rel not in srcs:
            p = os.path.join(repo, rel)
            if not os.path.exists(p):
                raise AnchorLost(f'{rel}: file not found')
            srcs[rel] = Source(p)
        return srcs[rel]

    def load(path, depth=0):
        out_l = []
        for l in open(path).read().split('\n'):
            if l.startswith('//@include '):
                inc = os.path.join(os.path.dirname(path), l.split(None, 1)[1].strip())
                out_l += load(inc, depth + 1)
            else:
                out_l.append(l)
        return out_l

    tl = load(template_path)
    # //@set NAME value   ... ${NAME} in later directive lines
    tvars = {}
    tl2 = []
    for l in tl:
        if l.startswith('//@set '):
            _, name, *val = l.split(None, 2)
            tvars[name] = val[0] if val else ''
            continue
        if l.startswith('//@') and '${' in l:
            for k, v in tvars.items():
                l = l.replace('${' + k + '}', v)
        tl2.append(l)
    tl = tl2
    i = 0
    cur = None      # open impl: (rel, src, hdr_start, open, close)
    while i < len(tl):
        line = tl[i]
        if not line.startswith('//@'):
            out.emit(line)
            i += 1
            continue
        d = line[3:].strip()
        cmd, _, rest = d.partition(' ')
        if cmd == 'unit':
            out.unit = rest.strip()
            i += 1
        elif cmd in ('item', 'whole'):
            pos, kw = _parse_args(rest)
            rel, hdr = pos[0], pos[1]
            s = src_of(rel)
            hs, ob, cl = find_block(s, hdr, nth=int(kw.get('nth', 1)))
            istart, _sig = s.item_start(hs)
            attr_text = s.text[istart:hs]
            _, dropped = strip_docs_and_derives(attr_text)
            for al in attr_text.split('\n'):
                st = al.strip()
                m = re.match(r'#\[derive\((.*)\)\]$', st)
                if m:
                    keep = [x.strip() for x in m.group(1).split(',') if x.strip() in ('Clone', 'Copy')]
                    if keep and cmd == 'item' and kw.get('derive', 'yes') == 'yes':
                        out.emit('#[derive(' + ', '.join(keep) + ')]')
                    elif keep:
                        dropped += [f'derive({x})' for x in keep]
                elif st.startswith('#[repr'):
                    out.emit(st)
                elif st.startswith('#['):
                    dropped.append('attribute ' + st)
            body = s.text[hs:cl + 1]
            body_nodoc, d2 = strip_docs_and_derives(body)
            if body_nodoc == body:
                out.emit_mapped(body, rel, s.line_of(hs))
            else:
                out.emit(body_nodoc)  # inner doc comments dropped; no line map
            out.items.append({'file': rel, 'header': hdr, 'first_line': s.line_of(hs), 'last_line': s.line_of(cl),
                              'sha256': hashlib.sha256(body.encode()).hexdigest()[:16]})
            out.dropped += [f'{rel}:{hdr}: {x}' for x in dropped + d2]
            out.identity_checks.append((f'{rel}:{hdr}', strip_comment_lines(body_nodoc), strip_comment_lines(body)))
            i += 1
        elif cmd == 'open':
            pos, kw = _parse_args(rest)
            rel, hdr = pos[0], pos[1]
            s = src_of(rel)
            hs, ob, cl = find_block(s, hdr, nth=int(kw.get('nth', 1)))
            assoc = {}
            if 'as' in kw:
                # re-home the methods of a trait impl in an inherent impl (trait methods cannot carry
                # `requires` in Verus).  The header is replaced by kw['as']; associated types of the
                # impl (`type X = T;`) are substituted for `Self::X` in the copied functions.
                for m in re.compile(r'^[ \t]*type\s+([A-Za-z0-9_]+)\s*=\s*([^;]*);', re.M).finditer(s.text, ob, cl):
                    if s.code[m.start()]:
                        assoc['Self::' + m.group(1)] = m.group(2).strip()
                cur = (rel, s, hs, ob, cl, assoc)
                out.emit(kw['as'] + ' {')
                out.dropped.append(f'{rel}: trait impl header `{norm_ws_hdr(s.text[hs:ob])}` re-homed as inherent `{kw["as"]}`'
                                   + (f'; substituted {assoc}' if assoc else ''))
                i += 1
                continue
            if 'subst' in kw:
                # stated type-alias substitution, e.g. subst="<Self as Iterator>::Item=>&'a T"
                a, b = kw['subst'].split('=>')
                assoc[a.strip()] = b.strip()
                out.dropped.append(f'{rel}: in `{norm_ws_hdr(s.text[hs:ob])}`: substituted `{a.strip()}` by `{b.strip()}`')
            cur = (rel, s, hs, ob, cl, assoc)
            out.emit_mapped(s.text[hs:ob + 1], rel, s.line_of(hs))
            # associated types / consts of the impl are copied verbatim
            for m in s.finditer_code(r'^[ \t]*(type|const)\s[^;{]*;', ob, cl) if False else \
                    [m for m in re.compile(r'^[ \t]*(?:type|const)\s[^;{]*;', re.M).finditer(s.text, ob, cl) if s.code[m.start()]]:
                depth = sum((1 if s.text[k] == '{' else -1 if s.text[k] == '}' else 0)
                            for k in range(ob, m.start()) if s.code[k])
                if depth == 1:
                    out.emit_mapped(m.group(0), rel, s.line_of(m.start() + len(m.group(0)) - len(m.group(0).lstrip())))
            i += 1
        elif cmd == 'close':
            out.emit('}')
            cur = None
            i += 1
        elif cmd in ('fn', 'freefn'):
            pos, kw = _parse_args(rest)
            if cmd == 'fn':
                if cur is None:
                    raise TemplateError(f'{template_path}:{i+1}: //@fn outside //@open')
                rel, s, hs, ob, cl, assoc = cur
                name = pos[0]
                istart, sig, bo, bc = find_fn(s, name, ob, cl)
                qual_prefix = short_impl_name(norm_ws_hdr(s.text[hs:ob]))
            else:
                rel, name = pos[0], pos[1]
                s = src_of(rel)
                istart, sig, bo, bc = find_fn(s, name, 0, len(s.text))
                qual_prefix = ''
                assoc = {}
            # gather sub-directives
            i += 1
            spec_lines, loop_ins, at_ins = [], {}, []
            rewrites = []
            mode = None
            while i < len(tl) and tl[i].strip() != '//@endfn':
                l = tl[i]
                if l.startswith('//@'):
                    sub = l[3:].strip()
                    scmd, _, srest = sub.partition(' ')
                    if scmd == 'spec':
                        mode = ('spec',)
                    elif scmd == 'loop':
                        p2, k2 = _parse_args(srest)
                        n = int(p2[0])
                        loop_ins.setdefault(n, {'ghost': k2.get('ghost'), 'lines': []})
                        mode = ('loop', n)
                    elif scmd == 'rewrite':
                        # stated, recorded token substitution for a std operator impl Verus cannot specify
                        p2, k2 = _parse_args(srest)
                        rewrites.append((p2[0], p2[1], k2.get('why', '')))
                        mode = None
                    elif scmd == 'at':
                        p2, k2 = _parse_args(srest)
                        at_ins.append({'where': p2[0], 'text': p2[1], 'nth': int(k2.get('nth', 1)), 'lines': []})
                        mode = ('at', len(at_ins) - 1)
                    else:
                        raise TemplateError(f'{template_path}:{i+1}: unknown sub-directive {scmd}')
                else:
                    if mode is None:
                        if l.strip():
                            raise TemplateError(f'{template_path}:{i+1}: text outside sub-directive')
                    elif mode[0] == 'spec':
                        spec_lines.append(l)
                    elif mode[0] == 'loop':
                        loop_ins[mode[1]]['lines'].append(l)
                    else:
                        at_ins[mode[1]]['lines'].append(l)
                i += 1
            if i >= len(tl):
                raise TemplateError(f'{template_path}: //@fn {name} without //@endfn')
            i += 1  # skip //@endfn
            insertions = []
            sig_text = s.text[sig:bo]
            if 'ret' in kw:
                rins, _ = name_return(sig_text, kw['ret'])
                if not rins:
                    raise AnchorLost(f'{rel}: fn {name} has no return type to name')
                insertions += [(sig + off, txt) for off, txt in rins]
            if spec_lines:
                # before the body brace; keep the where clause in front of it
                insertions.append((bo, '\n' + '\n'.join(spec_lines) + '\n'))
            loops = loops_in(s, bo, bc)
            for n, li in loop_ins.items():
                if n > len(loops):
                    raise AnchorLost(f'{rel}: fn {name}: loop {n} not found (has {len(loops)})')
                kind, koff, lob = loops[n - 1]
                if li['ghost']:
                    if kind != 'for':
                        raise AnchorLost(f'{rel}: fn {name}: loop {n} is not a for loop')
                    m = s.find_code(r'\bin\b\s*', koff, lob)
                    if not m:
                        raise AnchorLost(f'{rel}: fn {name}: loop {n}: no `in`')
                    insertions.append((m.end(), f"{li['ghost']}: "))
                if li['lines']:
                    insertions.append((lob, '\n' + '\n'.join(li['lines']) + '\n'))
            for a in at_ins:
                occ = [m.start() for m in re.finditer(re.escape(a['text']), s.text[bo:bc + 1])]
                occ = [bo + o for o in occ if s.code[bo + o]]
                if len(occ) < a['nth']:
                    raise AnchorLost(f'{rel}: fn {name}: text {a["text"]!r} (occurrence {a["nth"]}) not found in body')
                o = occ[a['nth'] - 1]
                if a['where'] == 'after':
                    o += len(a['text'])
                elif a['where'] == 'before-stmt':
                    # start of the statement that contains the text: just after the previous `;`, `{` or `}`
                    k = o - 1
                    while k > bo and not (s.code[k] and s.text[k] in ';{}'):
                        k -= 1
                    o = k + 1
                elif a['where'] == 'after-stmt':
                    depth = 0
                    k = o
                    while k < bc:
                        if s.code[k]:
                            ch = s.text[k]
                            if ch in '([{':
                                depth += 1
                            elif ch in ')]}':
                                depth -= 1
                                if depth < 0:
                                    break
                            elif ch == ';' and depth == 0:
                                k += 1
                                break
                        k += 1
                    o = k
                elif a['where'] != 'before':
                    raise TemplateError(f'at {a["where"]}?')
                insertions.append((o, '\n' + '\n'.join(a['lines']) + '\n'))
            verb = s.text[sig:bc + 1]
            assembled = apply_insertions(verb, sig, insertions)
            verb_cmp = verb
            for a_, b_, why in rewrites:
                if a_ not in verb_cmp:
                    raise AnchorLost(f'{rel}: fn {name}: rewrite source {a_!r} not found')
                assembled = assembled.replace(a_, b_)
                verb_cmp = verb_cmp.replace(a_, b_)
                out.dropped.append(f'{rel}: fn {name}: REWRITE `{a_}` -> `{b_}` ({why})')
            for k, v in assoc.items():
                assembled = re.sub(re.escape(k) + r'(?![A-Za-z0-9_])', v, assembled)
                verb_cmp = re.sub(re.escape(k) + r'(?![A-Za-z0-9_])', v, verb_cmp)
            # attributes above the fn: keep #[inline]-like attrs? they are dropped (docs too) and recorded
            attr_text = s.text[istart:sig]
            for al in attr_text.split('\n'):
                al = al.strip()
                if al.startswith('#['):
                    out.dropped.append(f'{rel}: fn {name}: attribute {al}')
            if kw.get('attr'):
                out.emit('    ' + kw['attr'])
            region = f'{qual_prefix}::{name}' if qual_prefix else name
            out.emit_mapped('    ' + assembled if cmd == 'fn' else assembled, rel, s.line_of(sig), region=region)
            out.functions.append({'name': name, 'impl': qual_prefix, 'file': rel,
                                  'first_line': s.line_of(sig), 'last_line': s.line_of(bc),
                                  'sha256': hashlib.sha256(verb.encode()).hexdigest()[:16],
                                  'spec_clauses': len([x for x in spec_lines if x.strip()]),
                                  'loop_annotations': len(loop_ins), 'inserted_proof_blocks': len(at_ins)})
            out.identity_checks.append((f'{rel}: fn {name}', strip_insertions(assembled), verb_cmp))
        else:
            raise TemplateError(f'{template_path}:{i+1}: unknown directive {cmd}')
    return out


def short_impl_name(hdr):
    """`impl<'a, T> Iterator for Iter<'a, T>` -> `Iter(Iterator)`; `impl Shape` -> `Shape`"""
    h = re.sub(r'^impl\s*(<[^>]*>)?\s*', '', hdr)
    h = h.split(' where ')[0]
    if ' for ' in h:
        tr, ty = h.split(' for ', 1)
        return re.match(r'[A-Za-z0-9_:]+', ty.strip()).group(0) + '(' + re.match(r'[A-Za-z0-9_:]+', tr.strip()).group(0) + ')'
    return re.match(r'[A-Za-z0-9_:]+', h.strip()).group(0)


def norm_ws_hdr(s):
    return re.sub(r'\s+', ' ', s).strip()


def norm_first_line(body):
    return body.split('\n')[0]


def strip_comment_lines(text):
    return '\n'.join(l for l in text.split('\n') if not l.strip().startswith('///'))


def verify_identity(asm):
    """every extracted piece, with insertions stripped, equals the source text"""
    bad = []
    for label, a, b in asm.identity_checks:
        if a != b:
            bad.append(label)
    return bad


if __name__ == '__main__':
    import sys
    a = assemble(sys.argv[1])
    bad = verify_identity(a)
    sys.stdout.write(a.text())
    if bad:
        sys.stderr.write('IDENTITY MISMATCH: %s\n' % bad)
        sys.exit(2)
