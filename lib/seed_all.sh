#!/bin/bash
# evaluates every confirmed seed: quick tier first, thorough tier if quick does not alarm
# writes /verif/seeded/RESULTS.md
cd /verif
OUT=/verif/seeded/RESULTS.md
TMP=/tmp/seed_results.tsv
: > $TMP
for d in seeded/*/; do
  id=$(basename $d)
  [ -f $d/meta.json ] || continue
  prop=$(python3 -c "import json;print(json.load(open('$d/meta.json'))['property'])")
  if [ -n "$1" ] && [[ "$id" != *$1* ]]; then continue; fi
  lib/seed_eval.sh $id $prop quick > /tmp/seedrun-$id-quick.log 2>&1; q=$?
  t=-
  if [ $q -ne 1 ]; then lib/seed_eval.sh $id $prop thorough > /tmp/seedrun-$id-thorough.log 2>&1; t=$?; fi
  obl=$(grep -h "^VIOLATION" /tmp/seedrun-$id-quick.log /tmp/seedrun-$id-thorough.log 2>/dev/null | head -2 | sed 's/.*obligation=//' | tr '\n' ';' | cut -c1-220)
  echo -e "$id\t$prop\t$q\t$t\t$obl" >> $TMP
  echo "$id $prop quick=$q thorough=$t $obl"
done
python3 - <<'PY'
rows=[l.rstrip('\n').split('\t') for l in open('/tmp/seed_results.tsv')]
def verdict(q,t):
    if q=='1': return 'caught (quick)'
    if t=='1': return 'caught (thorough)'
    if q=='2' or t=='2': return 'INCONCLUSIVE (exit 2, no alarm, no pass)'
    return 'MISSED'
with open('/verif/seeded/RESULTS.md','a') as f:
    import time
    f.write(f"\n## run {time.strftime('%F %T')}\n\n| seed | property | quick exit | thorough exit | verdict | failed obligation(s) |\n|---|---|---|---|---|---|\n")
    for r in rows:
        f.write(f"| {r[0]} | {r[1]} | {r[2]} | {r[3]} | {verdict(r[2],r[3])} | {r[4]} |\n")
PY
