"""Mechanical extraction of Rust items from /repo's working tree.

Nothing here rewrites executable tokens.  Items are located by anchors (an item
header prefix, a function name inside an impl), their text is copied verbatim
(brace matching on a lexer that understands comments, strings, raw strings,
char literals and lifetimes), and annotations are *inserted* at positions that
the lexer identifies (before a body brace, before a loop-body brace, after
`in` of a `for`, before/after a statement text).  `strip_insertions` undoes
every insertion so that the assembled text can be checked against the source.
"""
import re


class AnchorLost(Exception):
    pass


# ---------------------------------------------------------------- lexer
def lex_mask(src):
    """Return a list `code` of booleans: code[i] is True when src[i] is a
    code character (not inside comment / string / char literal)."""
    n = len(src)
    code = [True] * n
    i = 0
    while i < n:
        c = src[i]
        if c == '/' and i + 1 < n and src[i + 1] == '/':
            j = src.find('\n', i)
            if j < 0:
                j = n
            for k in range(i, j):
                code[k] = False
            i = j
        elif c == '/' and i + 1 < n and src[i + 1] == '*':
            depth = 1
            j = i + 2
            while j < n and depth:
                if src.startswith('/*', j):
                    depth += 1
                    j += 2
                elif src.startswith('*/', j):
                    depth -= 1
                    j += 2
                else:
                    j += 1
            for k in range(i, j):
                code[k] = False
            i = j
        elif c == '"' or (c == 'b' and i + 1 < n and src[i + 1] == '"' and not _identch(src, i - 1)):
            j = i + (2 if c == 'b' else 1)
            while j < n and src[j] != '"':
                if src[j] == '\\':
                    j += 1
                j += 1
            j += 1
            for k in range(i, j):
                code[k] = False
            i = j
        elif c == 'r' and not _identch(src, i - 1) and re.match(r'r#*"', src[i:i + 12]):
            m = re.match(r'r(#*)"', src[i:i + 12])
            close = '"' + m.group(1)
            j = src.find(close, i + len(m.group(0)))
            j = n if j < 0 else j + len(close)
            for k in range(i, j):
                code[k] = False
            i = j
        elif c == "'" or (c == 'b' and i + 1 < n and src[i + 1] == "'" and not _identch(src, i - 1)):
            s = i + (1 if c == 'b' else 0)
            # char literal or lifetime?
            m = re.match(r"'(\\.[^']*|[^\\'])'", src[s:s + 12])
            if m:
                j = s + len(m.group(0))
                for k in range(i, j):
                    code[k] = False
                i = j
            else:
                i = s + 1  # lifetime
        else:
            i += 1
    return code


def _identch(src, i):
    return i >= 0 and (src[i].isalnum() or src[i] == '_')


class Source:
    def __init__(self, path, text=None):
        self.path = path
        self.text = open(path).read() if text is None else text
        self.code = lex_mask(self.text)
        # line starts for mapping offsets to lines
        self.line_starts = [0]
        for m in re.finditer('\n', self.text):
            self.line_starts.append(m.end())

    def line_of(self, off):
        import bisect
        return bisect.bisect_right(self.line_starts, off)

    def match_brace(self, open_off):
        """offset of the '}' matching the '{' at open_off"""
        t, code = self.text, self.code
        assert t[open_off] == '{'
        depth = 0
        for i in range(open_off, len(t)):
            if not code[i]:
                continue
            if t[i] == '{':
                depth += 1
            elif t[i] == '}':
                depth -= 1
                if depth == 0:
                    return i
        raise AnchorLost(f'{self.path}: unbalanced brace at {open_off}')

    def find_code(self, pattern, start=0, end=None, flags=0):
        """first regex match whose start lies in code"""
        end = len(self.text) if end is None else end
        for m in re.compile(pattern, flags).finditer(self.text, start, end):
            if self.code[m.start()]:
                return m
        return None

    def finditer_code(self, pattern, start=0, end=None):
        end = len(self.text) if end is None else end
        for m in re.compile(pattern).finditer(self.text, start, end):
            if self.code[m.start()]:
                yield m

    def next_open_brace(self, start, end=None):
        """first '{' in code at paren/bracket depth 0 at or after start, or ';'"""
        t, code = self.text, self.code
        end = len(t) if end is None else end
        depth = 0
        for i in range(start, end):
            if not code[i]:
                continue
            c = t[i]
            if c in '([':
                depth += 1
            elif c in ')]':
                depth -= 1
            elif depth == 0 and c in '{;':
                return i
        raise AnchorLost(f'{self.path}: no body after offset {start}')

    def item_start(self, off, lo=0):
        """walk back from `off` (start of `fn`/`struct`/`impl` keyword) over
        visibility, qualifiers, attributes and doc comments; returns
        (start_of_item_with_attrs, start_of_signature)"""
        t = self.text
        # signature start: beginning of the line's code (pub, const, unsafe...)
        ls = t.rfind('\n', 0, off) + 1
        sig = ls + (len(t[ls:off]) - len(t[ls:off].lstrip()))
        # attributes / docs above
        start = ls
        while start > lo:
            prev_ls = t.rfind('\n', 0, start - 1) + 1
            line = t[prev_ls:start - 1].strip()
            if line.startswith('///') or line.startswith('#[') or line.startswith('//!'):
                start = prev_ls
            else:
                break
        return start, sig


def norm_ws(s):
    return re.sub(r'\s+', ' ', s).strip()


def find_block(src, header_prefix, start=0, end=None, nth=1):
    """Locate an item whose header (whitespace-normalised) starts with
    header_prefix, e.g. "impl<'a, T> RemovedAxis<'a, T>" or "pub struct Shape"
    or "impl Deref for Shape".  Returns (hdr_start, open_brace_or_semicolon, close)."""
    want = norm_ws(header_prefix)
    first = re.escape(want.split(' ')[0])
    count = 0
    for m in src.finditer_code(r'(?<![A-Za-z0-9_])' + first, start, end):
        # must be at the beginning of a line's code
        ls = src.text.rfind('\n', 0, m.start()) + 1
        if src.text[ls:m.start()].strip() != '':
            continue
        ob = src.next_open_brace(m.start(), end)
        hdr = norm_ws(src.text[m.start():ob])
        if hdr.startswith(want) and (len(hdr) == len(want) or not (hdr[len(want)].isalnum() or hdr[len(want)] == '_')):
            count += 1
            if count < nth:
                continue
            if src.text[ob] == ';':
                return m.start(), ob, ob
            return m.start(), ob, src.match_brace(ob)
    raise AnchorLost(f'{src.path}: item "{header_prefix}" not found')


def find_fn(src, name, start, end):
    """Locate `fn name` directly inside the block [start,end) (depth 1 relative
    to the block).  Returns (item_start, sig_start, body_open, body_close)."""
    for m in src.finditer_code(r'\bfn\s+' + re.escape(name) + r'\b', start, end):
        # depth check: count braces between start and m
        depth = 0
        for i in range(start, m.start()):
            if src.code[i]:
                if src.text[i] == '{':
                    depth += 1
                elif src.text[i] == '}':
                    depth -= 1
        if depth != (1 if src.text[start] == '{' else 0):
            continue
        ob = src.next_open_brace(m.end(), end)
        if src.text[ob] == ';':
            continue
        istart, sig = src.item_start(m.start(), start)
        return istart, sig, ob, src.match_brace(ob)
    raise AnchorLost(f'{src.path}: fn {name} not found in block at line {src.line_of(start)}')


def loops_in(src, body_open, body_close):
    """Offsets of loop keywords (for/while/loop) in code inside a body, in order,
    each with the offset of its body '{'."""
    out = []
    for m in src.finditer_code(r'(?<![A-Za-z0-9_\.])(for|while|loop)\b', body_open, body_close):
        # `for` in `impl ... for` cannot appear inside fn bodies we extract;
        # `for<'a>` HRTB: skip
        if src.text[m.end():m.end() + 1] == '<':
            continue
        ob = src.next_open_brace(m.end(), body_close)
        if src.text[ob] != '{':
            continue
        out.append((m.group(1), m.start(), ob))
    return out


INS_OPEN = '/*+*/'
INS_CLOSE = '/*-*/'


def ins(text):
    """wrap inserted annotation text in markers so that it can be stripped"""
    return f'{INS_OPEN}{text}{INS_CLOSE}'


def strip_insertions(text):
    out = []
    i = 0
    while True:
        j = text.find(INS_OPEN, i)
        if j < 0:
            out.append(text[i:])
            break
        out.append(text[i:j])
        k = text.find(INS_CLOSE, j)
        i = k + len(INS_CLOSE)
    return ''.join(out)


def apply_insertions(text, base, insertions):
    """insertions: list of (absolute_offset, string); base = absolute offset of text[0]"""
    out = []
    pos = 0
    for off, s in sorted(insertions, key=lambda x: x[0]):
        rel = off - base
        out.append(text[pos:rel])
        out.append(ins(s))
        pos = rel
    out.append(text[pos:])
    return ''.join(out)


def strip_docs_and_derives(text, keep_derives=('Clone', 'Copy')):
    """Used for struct/enum items: drop doc comments; reduce #[derive(..)] to the
    kept traits.  Returns (text, dropped_list)."""
    dropped = []
    lines = []
    for line in text.split('\n'):
        s = line.strip()
        if s.startswith('///') or s.startswith('//!'):
            continue
        m = re.match(r'\s*#\[derive\((.*)\)\]\s*$', line)
        if m:
            traits = [x.strip() for x in m.group(1).split(',') if x.strip()]
            keep = [x for x in traits if x in keep_derives]
            dropped += [f'derive({x})' for x in traits if x not in keep_derives]
            if keep:
                lines.append(line[:line.index('#')] + '#[derive(' + ', '.join(keep) + ')]')
            continue
        lines.append(line)
    return '\n'.join(lines), dropped
