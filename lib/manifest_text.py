HOOK_COMMITS = ['6e462db']

TEXT = {
    'C08': {
        'level_text': 'Proof for every allele pair: Kani harnesses without loops over all Option<usize> x Option<usize> x phasings (complete, no bound) for ploidy 1, 2, 3 and the absent genotype; Verus contract on Genotype::try_from_raw extracted from the source. The oracle is the classification in the property statement.',
        'design_ref': 'DESIGN.md section 5 / C08',
        'level_note': 'Trusted: noodles GT/BCF decoding into allele positions, Kani/CBMC, Verus/z3. Ploidy > 3 is covered by the same slice pattern but not enumerated. The CLI error text (contig:position) is not decided.',
        'technique': 'Kani full-domain loop-free harnesses + Verus function contract',
    },
    'C19': {
        'level_text': 'Verus contracts on the axis-removal and view/iterator functions extracted from the source, for all shapes and call histories.',
        'design_ref': 'DESIGN.md section 5 / C19',
        'level_note': 'Trusted: vstd, AsRef/slice axioms in verus/prelude.rs.',
        'technique': 'Verus contracts (representation invariants, unbounded)',
    },
}

NOT_APPLICABLE = [
    {'property_id': 'C10', 'reason': 'accounting, strict mode and no-partial-output live in the bin crate (anyhow!/log! expansions, dyn Reader, stderr, exit status); no function within reach of Verus or Kani carries them. The per-record facts are decided under C01/C02.'},
    {'property_id': 'C12', 'reason': 'threads, BGZF/gzip containers, stdin/file transport and cross-process determinism are concurrency and dependency behaviour: Kani has no threads, Verus cannot see noodles/flate2.'},
    {'property_id': 'C13', 'reason': 'the operation order is the statement order inside View::run (bin crate, file I/O at both ends, mask step has no function boundary to put a contract on).'},
]
