HOOK_COMMITS = ['6e462db', '4c6b7d2', '8782511', '820825c', '9b24d1b']

_K = 'Trusted: Kani/CBMC, Verus/z3/vstd, the std and dependency code below the functions under contract. '

TEXT = {
    'C01': {
        'level_text': 'Bounded model checking of the real read_site (3 input columns, 2 populations; six configurations of column->population table and fixed results, each with one column ranging over all genotype results incl. missing, multiallelic and ploidy error, from a non-zero garbage pre-state of the accumulators) plus the complete genotype classification proof (C08). The oracle is the formula of the property statement. The end-to-end composition (parsing, Runner, printing) is not decided.',
        'design_ref': 'DESIGN.md 5/C01',
        'level_note': _K + 'sample::Map lookups are replaced by their contract (consistent table); shape rule 1+2*size, Runner::run and printing are assumed. Bounded in columns/populations.',
        'technique': 'Kani harness on the real read_site with contract stubs for the hash-map sample table (bounded) + Kani full-domain classification',
    },
    'C02': {
        'level_text': 'Verus proof (unbounded) that ProjectIter enumerates exactly prod(m_j+1) cells in row-major order of the target shape, each value a function of (totals, counts, target, cell) only; Kani (bounded: 3 columns, 2 populations, targets <= 6) that read_site takes the exact / projectable / insufficient decision of the statement and that the projected values are products of per-population pmf(t_j, a_j, m_j, k_j) in row-major order, with the pmf replaced by an argument-encoding stub.',
        'design_ref': 'DESIGN.md 5/C02',
        'level_note': _K + 'pmf values (f64 through exp/ln) are not decided; Builder::build and Project::shape are not under contract.',
        'technique': 'Verus contract on the projection odometer + Kani harness on read_site with a pmf stub (bounded)',
    },
    'C03': {
        'level_text': 'Structure only: validation of targets (larger / zero / different dimensionality rejected, complete over usize for two axes; Count::try_from_shape = Some(shape - 1) iff no axis has length zero proved by Verus for every dimensionality), Spectrum::project is the linear operator new[k\'] += x[k] * prod_j H(k\'_j; n_j, k_j, m_j) over all source cells (Kani, bounded shapes, H = stub), and ProjectIter is the row-major odometer (Verus, unbounded). That H is the hypergeometric pmf, finiteness, and the algebraic laws are NOT decided.',
        'design_ref': 'DESIGN.md 5/C03',
        'level_note': _K + 'The numerical content of C03 is out of reach of both verifiers (f64 exp/ln).',
        'technique': 'Kani full-domain validation harnesses + wiring harness with pmf stub (bounded) + Verus odometer contract',
    },
    'C04': {
        'level_text': 'Verus proofs (unbounded, all shapes / axes / positions / call histories): an axis view addresses exactly the elements whose a-th index is i (get_axis contract + theorem_axis_view_element) and its iterator yields them in row-major order once, then None. Kani (bounded shapes): marginalize equals the brute-force sum over the removed axes for every listed axis subset in every order, joint = one-at-a-time, mass preserved; nine rejected axis lists (duplicate, out of bounds, too many) return the documented error.',
        'design_ref': 'DESIGN.md 5/C04',
        'level_note': _K + 'Array::sum / marginalize_unchecked (iterator adapters) are bounded-checked only; sums on integer-valued cells.',
        'technique': 'Verus contracts on get_axis / view::Iter (representation invariant) + Kani harnesses on marginalize (bounded)',
    },
    'C05': {
        'level_text': 'Verus proof (unbounded, every shape and dimension): index_sum_from_flat_unchecked(i) is the total allele count of cell i, the flat partner n-1-i is the mirror cell and the counts of a mirror pair add up to T (theorem_mirror_pair). Kani (bounded shapes incl. odd totals, length-1 axes; fill over all f64 bit patterns): every output cell is x[i]+x[mirror] / 0.5x[i]+0.5x[mirror] / fill exactly as stated, fold is idempotent, mass preserving and invariant under mirroring the input; the four --fill keywords of the CLI map to NaN, 0, -1, +inf (complete).',
        'design_ref': 'DESIGN.md 5/C05',
        'level_note': _K + 'Shape::elements assumed in the Verus unit; the wiring of Folded::from_spectrum is bounded-checked on integer-valued cells.',
        'technique': 'Verus loop invariant + mixed-radix lemmas; Kani harnesses on Spectrum::fold (bounded)',
    },
    'C06': {
        'level_text': 'Bounded stand-ins only (floating point; symbolic f64 cells do not finish under CBMC): KING, R0, R1 equal the stated ratios on one asymmetric integer 3x3 table; S, sum, pi_xy equal their definitions exactly on an integer-valued 3x4 spectrum; Watterson theta and pi (3, 4, 5 chromosomes), f2 and Hudson Fst (3x4), f3 (2x3x3), f4 (2x3x2x2) equal independently written defining sums on one concrete table each up to 1e-9; Statistic::calculate in the bin crate calls the statistic its name says, on the normalised spectrum exactly for f2, f3, f4, Fst (one concrete table per dimensionality). Tajima D and Fu-Li D (sqrt, exp/ln) and the genotype-level reading are not decided.',
        'design_ref': 'DESIGN.md 5/C06',
        'level_note': _K + 'every harness is one concrete table (bounded, not a proof); 2 of 14 statistics and the genotype-level reading are not decided; binomial and powi are stubbed by a table / repeated multiplication.',
        'technique': 'Kani harnesses executing the real statistics on concrete tables against independently written definitions (bounded)',
    },
    'C07': {
        'level_text': 'npy value path only: the writer emits header then exactly the values in data order as 8 little-endian bytes each (Verus, unbounded, any sink), f64 LE encode/decode is the identity on all 2^64 bit patterns and the f8 decoder returns exactly the decoded value (Kani, complete). Text format, header text round trip and cross-command acceptance are not decided.',
        'design_ref': 'DESIGN.md 5/C07',
        'level_note': _K + 'io::Write contract assumed; HeaderDict text and nom parser not verified.',
        'technique': 'Verus contract on write_array + Kani full-domain encode/decode harnesses',
    },
    'C08': {
        'level_text': 'Proof for every allele pair: loop-free Kani harnesses over all Option<usize> x Option<usize> x phasings for ploidy 1, 2, 3 and the absent genotype (complete); Verus contract on Genotype::try_from_raw; read_site turns a ploidy error of a selected column into an error and ignores unselected columns (bounded: 3 columns).',
        'design_ref': 'DESIGN.md 5/C08',
        'level_note': _K + 'noodles GT/BCF decoding assumed; the CLI error text is not decided.',
        'technique': 'Kani full-domain loop-free harnesses + Verus function contract',
    },
    'C09': {
        'level_text': 'Column-order independence only: read_site depends on the input columns only through the column->population table, on six tables incl. unselected columns and both column orders (bounded: 3 columns, 2 populations). Verus (unbounded, IndexSet assumed by a stated model): population::Map::insert gives a label seen before its old id and changes nothing, and gives a new label the next id in order of first appearance. The rest of the id assignment (get, get_or_insert, sample::Map::from_iter), sample-list parsing and the error cases live behind hash maps and closures and are not decided.',
        'design_ref': 'DESIGN.md 5/C09',
        'level_note': _K + 'sample::Map is assumed by contract; indexmap::IndexSet is an assumed model in V-popmap.',
        'technique': 'Kani harness on read_site with a symbolic column->population table (bounded) + Verus contract on population::Map::insert over an assumed IndexSet model',
    },
    'C11': {
        'level_text': 'read_site is run from an arbitrary pre-state of every reused accumulator (counts, totals, skipped list, projection scratch buffer) and its postcondition mentions the current record only, so no history of any length can influence a record (bounded in width: 3 columns, 2 populations); Verus: started from a zeroed buffer ProjectIter is a function of (totals, counts, target) only.',
        'design_ref': 'DESIGN.md 5/C11',
        'level_note': _K + 'additivity of the running sum in Runner::run is not decided.',
        'technique': 'Kani harness with unconstrained pre-state (history-free postcondition) + Verus odometer contract',
    },
    'C14': {
        'level_text': 'Non-interference and a few symmetries only: S, pi, Watterson, pi_xy, KING, R0, R1 give bit-identical results when only the two monomorphic cells differ (all f64 bit patterns; bounded shapes; binomial stubbed by one table for both runs); KING, R0, R1 are invariant under swapping the two individuals on one integer 3x3 table; f2 and Fst of the transposed table and f3 = (f2(A,B)+f2(A,C)-f2(B,C))/2 over the marginals hold on one concrete table each up to 1e-9 (thorough tier). The D statistics (sqrt) and the other real-number identities (f4 via f2, folding, scaling) are not decided.',
        'design_ref': 'DESIGN.md 5/C14',
        'level_note': _K + 'identities over the reals do not hold bitwise in f64 and are not claimed.',
        'technique': 'Kani two-run non-interference harnesses (bounded shapes, full f64 domain for the varied cells)',
    },
    'C15': {
        'level_text': 'Writer (Verus, unbounded, every dictionary length hence every residue mod 64): magic, version 1.0, little-endian u16 length, total header length a multiple of 64, newline last, padding spaces, descr/fortran/shape arguments wired as <f8 / False / the array shape, then prod(shape) little-endian doubles. Reader (Kani, complete per decoder): each of the 20 (byte order, type) decoders returns the numpy float64 conversion for all byte patterns; version bytes and length fields for all byte patterns.',
        'design_ref': 'DESIGN.md 5/C15',
        'level_note': _K + 'io::Write::write_all contract assumed; dictionary text and nom parser not verified.',
        'technique': 'Verus contract on Header::write / write_array + Kani full-domain decoder harnesses',
    },
    'C16': {
        'level_text': 'Value section and length field: a partial trailing value is an error for every stream length 0..=9 (contents symbolic), a short length field is an error, inputs shorter than the magic are "invalid format", wrong-length index vectors / value counts are rejected. Truncation inside the dictionary and text damage are not decided.',
        'design_ref': 'DESIGN.md 5/C16',
        'level_note': _K + 'nom / str parsing not verified.',
        'technique': 'Kani harnesses on the npy reader pieces and format detection',
    },
    'C17': {
        'level_text': 'Panic-freedom (overflow, bounds, unwrap/expect, division) of every function under contract: all six Verus units (unbounded, under their stated preconditions) and Kani harnesses aimed at the spots the property names -- format detection on short input (complete for 0..=8 bytes), projection validation over all usize (two axes), nine rejected marginalization lists, Array::new on overflowing shapes (complete over all pairs of lengths), the 14 statistics on degenerate and small shapes (bounded grid).',
        'design_ref': 'DESIGN.md 5/C17',
        'level_note': _K + 'the process as a whole (noodles, nom, clap, main) is not under contract.',
        'technique': 'Verus/Kani safety obligations of the functions under contract',
    },
    'C18': {
        'level_text': 'Writer (Verus, unbounded): for every sink obeying the write_all contract the npy bytes are the same sequence regardless of how many bytes the sink accepts per call, and Ok is returned only if no write failed. Reader: compression/format detection as a function of the stream for every first-chunk length >= 3 (complete for streams <= 6 bytes; shorter first chunks are known finding F14), partial values and short length fields are errors.',
        'design_ref': 'DESIGN.md 5/C18',
        'level_note': _K + 'VCF/BCF/BGZF streams and the text writer are not decided.',
        'technique': 'Verus contract with a ghost byte log and sticky failure flag + Kani harness with a chunked BufRead',
    },
    'C19': {
        'level_text': 'Verus proofs for all shapes, axes, positions and call histories: RemovedAxis get/len/index; Array::get_axis is Some iff axis and position are in range and the view addresses exactly the elements with a-th index i (theorem_axis_view_element); view::Iter yields the element of row-major rank k at call k, then None forever, with exact size_hint (representation invariant); AxisIter yields one view per position, then None, exact size_hint; Array::index_axis cannot panic exactly when axis and position are in range and returns the get_axis view; IndicesIter::size_hint = total - index without underflow under the invariant established by from_shape/new; flat<->multi-index bijection as mathematics. Kani (bounded shapes) for flat_index / index_from_flat / get / iter_indices and end-to-end axis views.',
        'design_ref': 'DESIGN.md 5/C19',
        'level_note': _K + 'Array representation invariant assumed in Verus, checked by Kani on listed shapes; elements()/as_ref contracts assumed in two units.',
        'technique': 'Verus contracts (representation invariants, recursive odometer proof) + Kani harnesses (bounded)',
    },
}

NOT_APPLICABLE = [
    {'property_id': 'C10', 'reason': 'accounting, strict mode and no-partial-output live in the bin crate (anyhow!/log! expansions, dyn Reader, stderr, exit status); no function within reach of Verus or Kani carries them. The per-record facts are decided under C01/C02.'},
    {'property_id': 'C12', 'reason': 'threads, BGZF/gzip containers, stdin/file transport and cross-process determinism are concurrency and dependency behaviour: Kani has no threads, Verus cannot see noodles/flate2. The uncompressed magic-byte detection fragment is decided under C18.'},
    {'property_id': 'C13', 'reason': 'the operation order is the statement order inside View::run (bin crate, file I/O at both ends, mask step has no function boundary to put a contract on); marginalize, project and normalize are decided as library functions under C04/C03/C14.'},
]
