"""Run Kani harnesses that are compiled inside sfs-core (cfg(kani) hook) against
/repo's working tree, collect the per-check table from Kani's JSON export, and
turn counterexamples into native replays.

Result of run_harnesses():
  status: 'ok' | 'failed' | 'inconclusive'
  harnesses: {name: {status, checks_total, checks_failed, covers_satisfied, covers_total,
                     failed_checks:[{description, function, file, line, category}], solver, solver_s, duration_ms}}
"""
import json
import os
import re
import shutil
import subprocess
import time

VERIF = os.path.dirname(os.path.dirname(os.path.abspath(__file__)))
BUILD = os.path.join(VERIF, '.build')
TARGET = os.environ.get('VERIF_KANI_TARGET', os.path.join(BUILD, 'kani-core'))
PLAYBACK_TARGET = os.path.join(BUILD, 'kani-playback')
PLAYBACK_DIR = os.path.join(BUILD, 'playback')
INCRATE = os.path.join(VERIF, 'kani', 'incrate')


def ignorable(c):
    """Kani checks that are not violations of any property here:
    * 'NaN on <op>': an IEEE NaN result is a value, not a panic (statistics of degenerate spectra are NaN by design);
    * 'misaligned pointer to reference cast' inside the Rust standard library sources (BorrowedBuf internals of
      read_exact): a known over-approximation of Kani's pointer checks in std code, not in sfs."""
    d = c.get('description', '')
    f = (c.get('location') or {}).get('file') or ''
    if d.startswith('NaN on '):
        return True
    if d.startswith('misaligned pointer to reference cast') and '/rustlib/src/rust/library/' in f:
        return True
    return False


def env():
    e = dict(os.environ)
    e['CARGO_NET_OFFLINE'] = 'true'
    e.pop('RUSTFLAGS', None)
    return e


INCLI = os.path.join(VERIF, 'kani', 'incli')


def package_of(harness):
    """k_cli_* harnesses live in the binary crate (hook in cli/src/main.rs), all others in sfs-core"""
    return 'sfs-cli' if harness.startswith('k_cli_') else 'sfs-core'


_REBUILT = set()
_LOCKS = []


def _force_rebuild(target_dir):
    """Forget the build output of the two workspace crates (not of their dependencies) in a target directory, once per
    process, so that every check compiles /repo's *current* text.  cargo's freshness test is by modification time: a
    source file restored with an older time stamp, or another copy of the repository built in the same target directory
    (the scratch copies of the seed / self tests), left artefacts that cargo considered fresh, and Kani then verified the
    previous code -- observed twice as a false alarm on the unchanged tree (DESIGN 10).  Costs one rebuild of sfs-core /
    sfs-cli per check (about 15 s)."""
    import fcntl
    import glob
    import shutil
    if target_dir in _REBUILT:
        return
    _REBUILT.add(target_dir)
    # Deleting build output under a concurrently running check would break that check, so the deletion happens only
    # while no other check uses this target directory: exclusive lock (non-blocking) for the deletion, shared lock for
    # the rest of the process.  If another check is active it has just rebuilt from the same tree; cargo's own build
    # lock serialises the compilations.
    os.makedirs(target_dir, exist_ok=True)
    lock = open(os.path.join(target_dir, '.verif-rebuild.lock'), 'w')
    _LOCKS.append(lock)
    try:
        fcntl.flock(lock, fcntl.LOCK_EX | fcntl.LOCK_NB)
    except OSError:
        fcntl.flock(lock, fcntl.LOCK_SH)
        return
    for pkg in ('sfs-core', 'sfs-cli'):
        for d in (glob.glob(os.path.join(target_dir, '**', 'build', pkg), recursive=True)
                  + glob.glob(os.path.join(target_dir, '**', '.fingerprint', pkg + '-*'), recursive=True)):
            shutil.rmtree(d, ignore_errors=True)
    fcntl.flock(lock, fcntl.LOCK_SH)


def _refresh_bin_crate():
    _force_rebuild(TARGET)


def harness_modules():
    return sorted(os.path.splitext(f)[0] for f in os.listdir(INCRATE)
                  if f.endswith('.rs') and f not in ('mod.rs', 'util.rs'))


def module_of(harness):
    """which incrate module defines a harness"""
    if package_of(harness) == 'sfs-cli':
        return 'cli'
    for m in harness_modules():
        txt = open(os.path.join(INCRATE, m + '.rs')).read()
        if re.search(r'\bfn\s+' + re.escape(harness) + r'\b', txt) or re.search(r'!\(\s*' + re.escape(harness) + r'\s*,', txt):
            return m
    return None


MODULE_PATHS = {
    'h_npy_header': 'array::npy::header::verif_kani',
    'h_spectrum_io': 'spectrum::io::verif_kani',
    'h_site_reader': 'input::site::reader::verif_kani',
    'h_geno_builder': 'input::genotype::reader::builder::verif_kani',
    'h_spectrum': 'spectrum::verif_kani',
    'h_project': 'spectrum::project::verif_kani',
    'h_site_builder': 'input::site::reader::builder::verif_kani',
}
_FULL = {}


def full_name(short):
    """fully qualified harness name for --exact (short names can be prefixes of each other)"""
    if package_of(short) == 'sfs-cli':
        return 'verif_kani::' + short
    if not _FULL:
        for m in harness_modules():
            txt = open(os.path.join(INCRATE, m + '.rs')).read()
            names = set(re.findall(r'\bfn\s+(k_[A-Za-z0-9_]+)\s*\(', txt))
            names |= set(re.findall(r'[a-z_]+!\(\s*(k_[A-Za-z0-9_]+)\s*,', txt))
            for n in names:
                _FULL[n] = MODULE_PATHS.get(m, 'verif_kani::' + m) + '::' + n
    return _FULL.get(short)


def ensure_playback_files(clear=False):
    os.makedirs(PLAYBACK_DIR, exist_ok=True)
    for m in harness_modules() + ['cli']:
        p = os.path.join(PLAYBACK_DIR, m + '.rs')
        if clear or not os.path.exists(p):
            open(p, 'w').write('')


def _run_chunk(names, repo='/repo', jobs=8, harness_timeout=600, total_timeout=7200, unwind=None, extra=(), pkg='sfs-core'):
    t0 = time.time()
    res = {'status': 'inconclusive', 'harnesses': {}, 'reason': '', 'wall_s': 0.0, 'cmd': ''}
    if not names:
        res['status'] = 'ok'
        return res
    os.makedirs(BUILD, exist_ok=True)
    out_json = os.path.join(BUILD, 'kani-result-%d.json' % os.getpid())
    if os.path.exists(out_json):
        os.remove(out_json)
    _force_rebuild(TARGET)
    cmd = ['cargo', 'kani', '-p', pkg, '--target-dir', TARGET,
           '-Z', 'unstable-options', '-Z', 'function-contracts', '-Z', 'stubbing',
           '--export-json', out_json, '--harness-timeout', f'{harness_timeout}s',
           '-j', str(jobs), '--output-format', 'terse']
    if unwind:
        cmd += ['--default-unwind', str(unwind)]
    cmd.append('--exact')
    for n in names:
        cmd += ['--harness', full_name(n) or n]
    cmd += list(extra)
    res['cmd'] = ' '.join(cmd)
    try:
        p = _run_watched(cmd, repo, total_timeout)
    except subprocess.TimeoutExpired:
        res['reason'] = f'cargo kani timed out after {total_timeout} s'
        res['wall_s'] = time.time() - t0
        return res
    res['wall_s'] = time.time() - t0
    log = p.stdout + '\n' + p.stderr
    res['log_tail'] = log[-6000:]
    if not os.path.exists(out_json):
        res['reason'] = 'kani produced no result file (build error?): ' + log[-3000:]
        return res
    js = json.load(open(out_json))
    os.remove(out_json)
    solver = {c['harness_id']: c for c in js.get('cbmc', [])}
    pdet = {c['harness_id']: c['property_details'] for c in js.get('property_details', [])}
    seen = set()
    for r in js['verification_results']['results']:
        hid = r['harness_id']
        short = hid.split('::')[-1]
        seen.add(short)
        checks = r.get('checks', [])
        failed = [c for c in checks if c['status'] in ('Failure', 'Failed', 'FAILURE') and not ignorable(c)]
        ignored = [c for c in checks if c['status'] in ('Failure', 'Failed', 'FAILURE') and ignorable(c)]
        covers = [c for c in checks if c.get('category') == 'cover']
        undet = [c for c in checks if c['status'] in ('Undetermined', 'UNDETERMINED')]
        h = {
            'id': hid, 'status': r['status'], 'duration_ms': r.get('duration_ms'),
            'checks_total': len(checks) - len(covers) - len(ignored), 'checks_failed': len(failed), 'checks_ignored': len(ignored),
            'checks_undetermined': len(undet),
            'covers_total': len(covers),
            'covers_satisfied': len([c for c in covers if c['status'] in ('Satisfied', 'SATISFIED')]),
            'unsatisfied_covers': [c['description'] for c in covers if c['status'] not in ('Satisfied', 'SATISFIED')],
            'failed_checks': [{'description': c['description'], 'function': c.get('function'),
                               'file': c.get('location', {}).get('file'), 'line': c.get('location', {}).get('line'),
                               'category': c.get('category')} for c in failed],
            'solver': ((solver.get(hid) or {}).get('configuration') or {}).get('solver'),
            'solver_s': ((solver.get(hid) or {}).get('cbmc_stats') or {}).get('runtime_decision_procedure_s'),
            'symex_s': ((solver.get(hid) or {}).get('cbmc_stats') or {}).get('runtime_symex_s'),
            'property_details': pdet.get(hid),
        }
        res['harnesses'][short] = h
    missing = [n for n in names if n not in seen]
    any_failed = any(h['checks_failed'] > 0 for h in res['harnesses'].values())
    incon = []
    for n, h in res['harnesses'].items():
        if h['status'] != 'Success' and h['checks_failed'] == 0 and not h.get('checks_ignored'):
            incon.append(f'{n}: status {h["status"]} without failed checks (timeout / out of memory / unwinding?)')
        if h['unsatisfied_covers'] and h['checks_failed'] == 0:
            incon.append(f'{n}: vacuity guard: cover not satisfied: {h["unsatisfied_covers"][:3]}')
        if h['checks_undetermined'] and h['checks_failed'] == 0:
            incon.append(f'{n}: {h["checks_undetermined"]} undetermined checks')
        if h['checks_total'] == 0:
            incon.append(f'{n}: zero obligations generated')
    if missing:
        incon.append('harnesses not reported: ' + ', '.join(missing) + ' :: ' + log[-1500:])
    if any_failed:
        res['status'] = 'failed'
        res['reason'] = '; '.join(incon)
    elif incon:
        res['status'] = 'inconclusive'
        res['reason'] = '; '.join(incon)
    else:
        res['status'] = 'ok'
    return res


MEM_GB = int(os.environ.get('VERIF_KANI_MEM_GB', '10'))
CHUNK = int(os.environ.get('VERIF_KANI_CHUNK', '10'))


def _descendants(root):
    out = subprocess.run(['ps', '-eo', 'pid=,ppid=,rss=,comm='], capture_output=True, text=True).stdout
    rows = []
    for line in out.split('\n'):
        f = line.split(None, 3)
        if len(f) == 4:
            rows.append((int(f[0]), int(f[1]), int(f[2]), f[3]))
    kids = {root}
    changed = True
    while changed:
        changed = False
        for pid, ppid, _rss, _c in rows:
            if ppid in kids and pid not in kids:
                kids.add(pid)
                changed = True
    return [r for r in rows if r[0] in kids]


class _Completed:
    def __init__(self, rc, out, err):
        self.returncode, self.stdout, self.stderr = rc, out, err


def _run_watched(cmd, cwd, total_timeout):
    """run cargo kani; a watchdog kills any single cbmc process whose resident set exceeds VERIF_KANI_MEM_GB
    (its harness is then reported as failed-without-checks = INCONCLUSIVE).  An address-space limit on the
    whole process tree made kani-driver itself abort ('memory allocation of 256 bytes failed')."""
    import tempfile
    import threading
    fo = tempfile.TemporaryFile(mode='w+')
    fe = tempfile.TemporaryFile(mode='w+')
    proc = subprocess.Popen(cmd, cwd=cwd, env=env(), stdout=fo, stderr=fe, text=True)
    stop = threading.Event()
    killed = []

    def watch():
        while not stop.wait(3.0):
            try:
                for pid, _ppid, rss_kb, comm in _descendants(proc.pid):
                    if comm.startswith('cbmc') and rss_kb > MEM_GB * 1024 * 1024:
                        try:
                            os.kill(pid, 9)
                            killed.append(pid)
                        except OSError:
                            pass
            except Exception:
                pass

    th = threading.Thread(target=watch, daemon=True)
    th.start()
    try:
        proc.wait(timeout=total_timeout)
    except subprocess.TimeoutExpired:
        for pid, _pp, _r, _c in _descendants(proc.pid):
            try:
                os.kill(pid, 9)
            except OSError:
                pass
        stop.set()
        raise
    stop.set()
    fo.seek(0)
    fe.seek(0)
    out, err = fo.read(), fe.read()
    if killed:
        err += f'\n[verif] watchdog killed {len(killed)} cbmc process(es) above {MEM_GB} GB resident memory\n'
    return _Completed(proc.returncode, out, err)


def _limit_memory_cex():
    """the counterexample re-run (one harness, trace generation) needs more memory than the verification run"""
    import resource
    lim = max(MEM_GB, int(os.environ.get('VERIF_KANI_CEX_MEM_GB', '24'))) * 1024 ** 3
    resource.setrlimit(resource.RLIMIT_AS, (lim, lim))


def _limit_memory():
    """address-space cap per process (cargo, kani-driver, each cbmc): a harness whose SAT instance explodes dies
    alone (reported INCONCLUSIVE) instead of taking the machine down (cbmc instances of 20-50 GB were observed)"""
    import resource
    lim = MEM_GB * 1024 ** 3
    resource.setrlimit(resource.RLIMIT_AS, (lim, lim))


def run_harnesses(names, repo='/repo', jobs=6, harness_timeout=600, total_timeout=7200, unwind=None, extra=()):
    """run harnesses in chunks (kani-driver itself grew to 20 GB when handed 100 harnesses at once)"""
    names = list(dict.fromkeys(names))
    merged = {'status': 'ok', 'harnesses': {}, 'reason': '', 'wall_s': 0.0, 'cmd': '', 'log_tail': ''}
    if not names:
        return merged
    rank = {'ok': 0, 'inconclusive': 1, 'failed': 2}
    reasons = []
    chunks = []
    for pkg in ('sfs-core', 'sfs-cli'):
        sub = [n for n in names if package_of(n) == pkg]
        chunks += [(pkg, sub[i:i + CHUNK]) for i in range(0, len(sub), CHUNK)]
    for pkg, chunk in chunks:
        r = _run_chunk(chunk, repo=repo, jobs=jobs, harness_timeout=harness_timeout,
                       total_timeout=total_timeout, unwind=unwind, extra=extra, pkg=pkg)
        merged['harnesses'].update(r['harnesses'])
        merged['wall_s'] += r['wall_s']
        merged['cmd'] = merged['cmd'] or r['cmd']
        merged['log_tail'] = r.get('log_tail', '')
        if r['reason']:
            reasons.append(r['reason'])
        if rank[r['status']] > rank[merged['status']]:
            merged['status'] = r['status']
    merged['reason'] = '; '.join(reasons)
    return merged


def counterexample(harness, repo='/repo', harness_timeout=900):
    """re-run one failing harness with concrete playback; returns list of generated
    unit tests (text) for failed assertions (not covers)."""
    _force_rebuild(TARGET)
    cmd = ['cargo', 'kani', '-p', package_of(harness), '--target-dir', TARGET,
           '-Z', 'unstable-options', '-Z', 'function-contracts', '-Z', 'stubbing', '-Z', 'concrete-playback',
           '--concrete-playback=print', '--harness-timeout', f'{harness_timeout}s',
           '--output-format', 'terse', '--exact', '--harness', full_name(harness) or harness]
    try:
        p = subprocess.run(cmd, cwd=repo, env=env(), capture_output=True, text=True, timeout=harness_timeout + 600, preexec_fn=_limit_memory_cex)
    except subprocess.TimeoutExpired:
        return []
    out = p.stdout
    tests = []
    for m in re.finditer(r'```\n(.*?)```', out, re.S):
        block = m.group(1)
        if 'kani::concrete_playback_run' not in block:
            continue
        cm = re.search(r'Check for `([a-z_]+)`: "(.*)"', block)
        kind = cm.group(1) if cm else '?'
        if kind == 'cover':
            continue
        fn = re.search(r'fn (kani_concrete_playback_[A-Za-z0-9_]+)', block).group(1)
        tests.append({'test_name': fn, 'check_kind': kind, 'check': cm.group(2) if cm else '', 'text': block})
    return tests


def native_replay(harness, test_text, test_name, repo='/repo'):
    """compile the generated test into sfs-core (cfg(kani), cfg(test)) and run it
    natively; returns (reproduced: bool, output tail)"""
    mod = module_of(harness)
    if mod is None:
        return False, f'harness {harness} not found in {INCRATE}'
    ensure_playback_files(clear=True)
    with open(os.path.join(PLAYBACK_DIR, mod + '.rs'), 'w') as f:
        f.write(test_text)
    e = env()
    e['CARGO_TARGET_DIR'] = PLAYBACK_TARGET
    _force_rebuild(PLAYBACK_TARGET)
    cmd = ['cargo', 'kani', 'playback', '-Z', 'concrete-playback', '-p', package_of(harness), '--', test_name, '--exact'][:-1]
    try:
        p = subprocess.run(cmd, cwd=repo, env=e, capture_output=True, text=True, timeout=1800)
    finally:
        ensure_playback_files(clear=True)
    out = p.stdout + '\n' + p.stderr
    reproduced = bool(re.search(r'test result: FAILED', out)) and test_name in out
    return reproduced, out[-4000:]


if __name__ == '__main__':
    import sys
    args = sys.argv[1:]
    to = 300
    if args and args[0].startswith('--timeout='):
        to = int(args.pop(0).split('=')[1])
    r = run_harnesses(args, harness_timeout=to, jobs=int(os.environ.get('VERIF_JOBS', '6')))
    print('status', r['status'], 'wall', round(r['wall_s'], 1), r['reason'][:3000])
    for n, h in sorted(r['harnesses'].items()):
        print(f"{n:50s} {h['status']:10s} checks={h['checks_total']} failed={h['checks_failed']} covers={h['covers_satisfied']}/{h['covers_total']} "
              f"solver_s={h['solver_s']} symex_s={h['symex_s']} dur_ms={h['duration_ms']}")
        for fc in h['failed_checks'][:6]:
            print('      FAILED:', fc['description'], fc['file'], fc['line'])
    if r['status'] == 'inconclusive' and not r['harnesses']:
        print(r.get('log_tail', '')[-3000:])
