#!/usr/bin/env python3
"""writes /verif/MANIFEST.json from lib/registry.py and lib/manifest_text.py"""
import json, os, sys
HERE = os.path.dirname(os.path.abspath(__file__))
sys.path.insert(0, HERE)
from registry import REGISTRY
from manifest_text import TEXT, NOT_APPLICABLE, HOOK_COMMITS

checks = []
for pid in sorted(REGISTRY):
    t = TEXT[pid]
    checks.append({
        'property_id': pid,
        'quick_cmd': f'./check {pid} quick',
        'thorough_cmd': f'./check {pid} thorough',
        'evidence_file': f'/verif/evidence/{pid}.json',
        'replay_cmd_template': './check --replay {path}',
        'engine': 'contracts',
        'level_claimed': {'category': REGISTRY[pid]['level'], 'text': t['level_text'], 'design_ref': t['design_ref']},
        'level_note': t['level_note'],
        'technique': t['technique'],
    })
m = {
    'version': 1,
    'setup_cmd': './setup.sh',
    'hooks': {
        'guard': 'cfg(kani)',
        'enable': 'cargo kani -p sfs-core / -p sfs-cli (sets cfg(kani)); the hooks are `#[cfg(kani)] #[path = "/verif/kani/incrate/<m>.rs"] mod verif_kani;` declarations at the end of core/src/lib.rs and of seven core modules with private items, one `#[path = "/verif/kani/incli/mod.rs"]` declaration at the end of cli/src/main.rs, plus a check-cfg lint entry in core/Cargo.toml and cli/Cargo.toml. Verus needs no hook: it reads the source text.',
        'baseline_off_cmd': 'cd /repo && cargo test --workspace --no-fail-fast --offline',
        'source_commits': HOOK_COMMITS,
        'add_only': True,
    },
    'engines': [{'name': 'contracts', 'path': '/verif/check', 'serves_properties': sorted(REGISTRY),
                 'kind_free_text': 'contract-based deductive verification: Verus on functions extracted mechanically from /repo on every run; Kani (CBMC) contracts and harnesses compiled inside sfs-core and the sfs binary crate'}],
    'checks': checks,
    'not_applicable': NOT_APPLICABLE,
    'notes': 'exit 2 = INCONCLUSIVE (lost anchor, unsupported construct, timeout, vacuity guard); never a VIOLATION. See DESIGN.md.',
}
json.dump(m, open(os.path.join(os.path.dirname(HERE), 'MANIFEST.json'), 'w'), indent=1)
print('MANIFEST.json written with', len(checks), 'checks')
