#!/bin/bash
# usage: measure_one.sh <harness> [timeout_s] [mem_kb]   -> one line: harness status wall_s maxrss_mb
H=$1; TO=${2:-1800}; MEM=${3:-12582912}
cd /repo
ulimit -v $MEM
export CARGO_NET_OFFLINE=true
/usr/bin/time -f "TIMEV %e %M" timeout $((TO+120)) cargo kani -p sfs-core --target-dir /verif/.build/kani-core -Z unstable-options -Z function-contracts -Z stubbing --harness-timeout ${TO}s --output-format terse --harness $H > /tmp/meas/$H.log 2>&1
st=$(grep -o "VERIFICATION:- [A-Z]*" /tmp/meas/$H.log | tail -1 | sed 's/VERIFICATION:- //')
fc=$(grep -c "^Failed Checks" /tmp/meas/$H.log)
nan=$(grep "^Failed Checks" /tmp/meas/$H.log | grep -c "NaN on")
tv=$(grep "^TIMEV" /tmp/meas/$H.log | tail -1)
oom=$(grep -ci "out of memory\|bad_alloc\|memory exhausted\|std::bad_alloc" /tmp/meas/$H.log)
to=$(grep -c "CBMC timed out" /tmp/meas/$H.log)
echo "$H status=${st:-NONE} failed_checks=$fc nan=$nan timeout=$to oom=$oom $(echo $tv | awk '{printf "wall_s=%s maxrss_mb=%d", $2, $3/1024}')"
