"""Run one Verus unit: assemble from /repo's working tree, verify, and turn the
verifier's output into an obligation table.

Result dict:
  status: 'ok' | 'failed' | 'inconclusive'
  functions: [{name, success, time_us, rlimit, mode}]         (one SMT query group per function = obligation)
  failures:  [{obligation, kind, message, asm_line, repo_file, repo_line, snippet}]
  reason:    text when inconclusive
"""
import json
import os
import re
import subprocess
import sys
import time

sys.path.insert(0, os.path.dirname(__file__))
from assemble import assemble, verify_identity, TemplateError  # noqa: E402
from rsx import AnchorLost  # noqa: E402

VERIF = os.path.dirname(os.path.dirname(os.path.abspath(__file__)))
BUILD = os.path.join(VERIF, '.build', 'verus')

PROOF_FAILURE_KINDS = [
    'postcondition not satisfied',
    'precondition not met',
    'requires not satisfied',
    'precondition not satisfied',
    'possible arithmetic underflow/overflow',
    'possible division by zero',
    'assertion failed',
    'invariant not satisfied at end of loop body',
    'invariant not satisfied before loop',
    'decreases not satisfied',
    'possible bit shift underflow/overflow',
    'unreachable',
    'possible truncation',
]

ASSUMPTION_PATTERNS = [
    (r'#\[verifier::external_body\]', 'external_body'),
    (r'\bassume_specification\b', 'assume_specification'),
    (r'\bassume\s*\(', 'assume'),
    (r'\badmit\s*\(', 'admit'),
    (r'\baxiom fn\b', 'axiom'),
    (r'#\[verifier::external_trait_specification\]', 'external_trait_specification'),
    (r'#\[verifier::external_type_specification\]', 'external_type_specification'),
    (r'\buninterp spec fn\b', 'uninterpreted spec function'),
    (r'#\[verifier::external\]', 'external'),
]


def scan_assumptions(text):
    """mechanical scan of an assembled unit for every unchecked assumption"""
    out = []
    lines = text.split('\n')
    for n, line in enumerate(lines, 1):
        if line.strip().startswith('//'):
            continue
        for pat, label in ASSUMPTION_PATTERNS:
            if re.search(pat, line):
                # describe with the next non-attribute line
                desc = line.strip()
                if desc.startswith('#['):
                    for k in range(n, min(n + 6, len(lines))):
                        if not lines[k].strip().startswith('#[') and lines[k].strip():
                            desc = desc + ' ' + lines[k].strip()
                            break
                out.append(f'{label}: {desc[:200]}')
    return out


def run_unit(unit_file, repo='/repo', rlimit=None, extra_args=()):
    t0 = time.time()
    name = os.path.splitext(os.path.basename(unit_file))[0]
    res = {'unit': name, 'status': 'inconclusive', 'functions': [], 'failures': [], 'reason': '',
           'assumptions': [], 'extracted': [], 'dropped': [], 'wall_s': 0.0, 'smt_ms': 0, 'cmd': ''}
    try:
        asm = assemble(unit_file, repo)
    except (AnchorLost, TemplateError) as e:
        res['reason'] = f'extraction failed: {e}'
        res['wall_s'] = time.time() - t0
        return res
    bad = verify_identity(asm)
    if bad:
        res['reason'] = f'extraction identity check failed for {bad}'
        return res
    os.makedirs(BUILD, exist_ok=True)
    prelude = open(os.path.join(VERIF, 'verus', 'prelude.rs')).read()
    # the unit lives in a module so that pub(super)/pub(crate) items of /repo keep their visibility tokens
    wrap_open = 'pub mod u {\nuse super::*;\n'
    pl = prelude.count('\n') + wrap_open.count('\n')
    text = prelude + wrap_open + asm.text() + '\n} // mod u\nfn main() {}\n'
    path = os.path.join(BUILD, name + '.rs')
    with open(path, 'w') as f:
        f.write(text)
    res['asm_path'] = path
    res['extracted'] = asm.functions
    res['items'] = asm.items
    res['dropped'] = asm.dropped
    res['assumptions'] = scan_assumptions(text)
    cmd = ['verus', path, '--output-json', '--time', '--multiple-errors', '8', '--num-threads', '8']
    if rlimit:
        cmd += ['--rlimit', str(rlimit)]
    cmd += list(extra_args)
    res['cmd'] = ' '.join(cmd)
    try:
        p = subprocess.run(cmd, capture_output=True, text=True, timeout=1800, cwd=BUILD)
    except subprocess.TimeoutExpired:
        res['reason'] = 'verus timed out (1800 s)'
        res['wall_s'] = time.time() - t0
        return res
    res['stderr'] = p.stderr
    res['wall_s'] = time.time() - t0
    try:
        js = json.loads(p.stdout[p.stdout.index('{'):])
    except (ValueError, json.JSONDecodeError):
        res['reason'] = 'verus produced no JSON: ' + (p.stderr[-2000:] or p.stdout[-2000:])
        return res
    vr = js.get('verification-results', {})
    try:
        for mod in js['times-ms']['smt']['smt-run-module-times']:
            for fb in mod.get('function-breakdown', []):
                res['functions'].append({'name': fb['function'], 'success': fb['success'], 'time_us': fb['time-micros'],
                                         'rlimit': fb['rlimit'], 'mode': fb.get('mode:', fb.get('mode'))})
        res['smt_ms'] = js['times-ms']['smt']['total']
    except KeyError:
        pass
    res['verified'] = vr.get('verified', 0)
    res['errors'] = vr.get('errors', 0)
    # parse the human-readable diagnostics
    diags = parse_diags(p.stderr)
    hard = []
    for d in diags:
        if d['level'] != 'error':
            continue
        kind = next((k for k in PROOF_FAILURE_KINDS if k in d['message']), None)
        if d['message'].startswith('aborting due to'):
            continue
        if kind is None:
            hard.append(d)
            continue
        line = d.get('line')
        fail = {'kind': kind, 'message': d['message'], 'asm_line': line, 'detail': d['text'][:1500]}
        if line is not None and line - pl - 1 < len(asm.lines):
            k = line - pl - 1
            o = asm.origin[k] if 0 <= k < len(asm.origin) else None
            if o:
                fail['repo_file'], fail['repo_line'] = o
            fail['snippet'] = asm.lines[k].strip() if 0 <= k < len(asm.lines) else ''
            fail['function'] = enclosing_fn(asm, k)
        fail['obligation'] = f"{name}::{fail.get('function', '?')}::{kind}"
        res['failures'].append(fail)
    if hard:
        res['status'] = 'inconclusive'
        res['reason'] = 'verus reported non-proof errors: ' + ' | '.join(h['message'][:300] for h in hard[:4])
        return res
    if vr.get('encountered-vir-error'):
        res['reason'] = 'verus VIR error'
        return res
    # the canary (a deliberately false lemma) must fail: it shows that the unit's
    # assumptions are not contradictory.  It is not an obligation of the property.
    canary = [f for f in res['functions'] if 'canary_must_fail' in f['name']]
    res['canary_ok'] = bool(canary) and not any(c['success'] for c in canary)
    res['failures'] = [f for f in res['failures'] if 'canary_must_fail' not in f.get('function', '')]
    res['functions'] = [f for f in res['functions'] if 'canary_must_fail' not in f['name']]
    if res['failures'] or any(not f['success'] for f in res['functions']):
        # rlimit is inconclusive, not a failure
        if re.search(r'[Rr]esource limit|rlimit', p.stderr) and not res['failures']:
            res['reason'] = 'rlimit exceeded'
            return res
        res['status'] = 'failed'
        return res
    if not vr.get('success') and not canary:
        res['reason'] = 'verus unsuccessful without diagnostics: ' + p.stderr[-1500:]
        return res
    if not res['canary_ok']:
        res['reason'] = 'canary missing or proved: assumptions may be contradictory'
        return res
    res['status'] = 'ok'
    return res


def enclosing_fn(asm, k):
    if asm.region[k]:
        return asm.region[k]
    for j in range(k, -1, -1):
        m = re.search(r'\bfn\s+([A-Za-z0-9_]+)', asm.lines[j])
        if m and not asm.lines[j].strip().startswith('//'):
            return asm.region[j] or m.group(1)
    return '?'


def parse_diags(stderr):
    diags = []
    cur = None
    for line in stderr.split('\n'):
        if line.startswith('[rust_verify'):
            continue
        m = re.match(r'^(error|warning|note)(\[E\d+\])?: (.*)$', line)
        if m:
            cur = {'level': m.group(1), 'code': m.group(2), 'message': m.group(3), 'text': line + '\n', 'line': None}
            diags.append(cur)
            continue
        if cur is not None:
            cur['text'] += line + '\n'
            m2 = re.match(r'^\s*--> [^:]+:(\d+):(\d+)', line)
            if m2 and cur['line'] is None:
                cur['line'] = int(m2.group(1))
    return diags


if __name__ == '__main__':
    r = run_unit(sys.argv[1], repo=os.environ.get('VERIF_REPO', '/repo'))
    print('status', r['status'], r['reason'][:3000], 'verified', r.get('verified'), 'errors', r.get('errors'), 'wall', round(r['wall_s'], 1))
    for f in r['functions']:
        if not f['success'] or f['time_us'] > 2000000:
            print('  fn', f['name'], 'success' if f['success'] else 'FAILED', f['time_us'] // 1000, 'ms')
    for f in r['failures']:
        print('  FAIL', f['obligation'], '@', f.get('repo_file'), f.get('repo_line'), '|', f.get('snippet'))
    if '-v' in sys.argv:
        print(re.sub(r'\[rust_verify[^\n]*\n', '', r.get('stderr', ''))[-int(os.environ.get('TAIL', '6000')):])
