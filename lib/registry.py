"""Which units and harnesses decide which property.  (Properties are given in
/verif/properties.jsonl; this file only wires machinery to ids.)

kani_meta kinds:
  complete : loop-free or loops bounded by operand width / a fixed small constant, over the full
             symbolic domain of the inputs named in 'bound' -- a proof for that function
  bounded  : bounded stand-in (shape / column count fixed per harness); never counted as proved
"""

TRUSTED_ALWAYS = [
    'Verus 0.2026.09.13 (VC generation, z3) and vstd specifications of Vec/slice/Option/integer operations',
    'Kani 0.68.0 / CBMC 6.11 (memory model, cadical SAT back end); termination is not verified by Kani',
    "rustc: the extracted functions are compiled by Verus' rustc 1.98.1, the shipped binary by 1.95.0",
    'machine integers are modelled exactly (usize = 64 bit); f64 is uninterpreted in Verus and IEEE-754 bit-precise in CBMC',
]

SHAPES_VIEW = 'shapes [3], [2,3], [2,1], [2,3,2], [3,1,2], [2,1,2,3]: every axis incl. first out-of-range, every position incl. one past the end, 4 calls past exhaustion'


def K(kind, bound, functions):
    return {'kind': kind, 'bound': bound, 'functions': functions}


VIEW_QUICK = ['k_view_axis_views_3', 'k_view_axis_views_2x3x2', 'k_view_axis_iter_4']
VIEW_THOROUGH = ['k_view_axis_views_2x3', 'k_view_axis_views_2x1', 'k_view_axis_views_3x1x2', 'k_view_axis_views_2x1x2x3',
                 'k_view_axis_iter_2x3x2']
INDEX_QUICK = ['k_index_bijection_2x3', 'k_index_bijection_1', 'k_index_iter_indices_1x3', 'k_index_get_2x3', 'k_index_get_2x3_len1', 'k_index_get_2x3_len3',
               'k_index_iter_indices_4', 'k_index_bijection_2x2x2x2x2']
INDEX_THOROUGH = ['k_index_bijection_1x2x2', 'k_index_iter_indices_1x1x2', 'k_index_bijection_5', 'k_index_bijection_3x1', 'k_index_bijection_2x3x2', 'k_index_bijection_3x1x4',
                  'k_index_bijection_2x1x2x3', 'k_index_bijection_5x4x9x2',
                  'k_index_get_4', 'k_index_get_4_len0', 'k_index_get_4_len2', 'k_index_get_2x1x3', 'k_index_get_2x2x2x2',
                  'k_index_iter_indices_2x3', 'k_index_iter_indices_3x1x2', 'k_index_iter_indices_2x2x1x2']
DECODERS = ['k_npy_decode_f4', 'k_npy_decode_f8', 'k_npy_decode_i1', 'k_npy_decode_i2', 'k_npy_decode_i4', 'k_npy_decode_i8',
            'k_npy_decode_u1', 'k_npy_decode_u2', 'k_npy_decode_u4', 'k_npy_decode_u8']
FOLD_QUICK = ['k_fold_5', 'k_fold_4', 'k_fold_1x3', 'k_fold_1']
FOLD_THOROUGH = ['k_fold_2x4', 'k_fold_3x4', 'k_fold_3x3', 'k_fold_2x3x2', 'k_fold_2x2x2', 'k_fold_3x1x1x2']
SITE_NOPROJ = ['k_site_noproj_abn_c0', 'k_site_noproj_abn_c2', 'k_site_noproj_aab_c1', 'k_site_noproj_aab_c2', 'k_site_noproj_baa_c0', 'k_site_noproj_nba_c1']
SITE_PROJDEC = ['k_site_projdec_aab_c0_to22', 'k_site_projdec_aab_c2_to42', 'k_site_projdec_aab_c1_to20', 'k_site_projdec_baa_c1_to02', 'k_site_projdec_nba_c0_to22']
SITE_PROJVAL = ['k_site_projval_aab_to21', 'k_site_projval_baa_to12', 'k_site_projval_aab_to02']
STAT_TOTAL = ['k_stat_total_1d_0', 'k_stat_total_2d_0x2', 'k_stat_total_1d_1', 'k_stat_total_1d_2', 'k_stat_total_1d_3', 'k_stat_total_1d_4', 'k_stat_total_2d_1x1', 'k_stat_total_2d_1x3',
              'k_stat_total_2d_2x1', 'k_stat_total_2d_2x2', 'k_stat_total_2d_3x3', 'k_stat_total_3d_1x1x1', 'k_stat_total_3d_2x1x2',
              'k_stat_total_4d_1x1x1x1', 'k_stat_total_4d_2x1x1x2']


def meta_for(names, kind, bound, functions):
    return {n: K(kind, bound, functions) for n in names}


KANI_META = {}
KANI_META.update(meta_for(VIEW_QUICK + VIEW_THOROUGH, 'bounded', 'one concrete shape per harness (in its name); every axis incl. the first out-of-range one, every position incl. one past the end, 4 calls past exhaustion',
                          ['Array::get_axis', 'Array::iter_axis', 'AxisIter::next/size_hint', 'View::iter', 'view::Iter::next/size_hint', 'Array::sum', 'RemovedAxis<Shape>::elements', 'Shape::strides', 'Array::new']))
KANI_META.update(meta_for(INDEX_QUICK + INDEX_THOROUGH, 'bounded', 'one concrete shape per harness (in its name); index vectors / flat positions symbolic over all usize values',
                          ['Shape::elements', 'Shape::strides', 'Strides::flat_index', 'Strides::flat_index_unchecked', 'Shape::index_from_flat_unchecked', 'Array::get', 'Array::get_mut', 'Array::iter_indices', 'IndicesIter::next/size_hint']))
KANI_META.update(meta_for(DECODERS, 'complete', 'none: all byte patterns of one value, both byte orders; the read loop runs at most twice (unwinding assertion on)',
                          ['TypeDescriptor::get_read_fn', 'TypeDescriptor::read']))
KANI_META.update({
    'k_geno_diploid_classification': K('complete', 'none: loop-free, all Option<usize> x Option<usize> x phasings', ['impl From<Option<VcfGenotype>> for genotype::Result :: from', 'Genotype::try_from_raw']),
    'k_geno_haploid_is_ploidy_error': K('complete', 'none: loop-free', ['genotype::Result::from']),
    'k_geno_triploid_is_ploidy_error': K('complete', 'none: loop-free', ['genotype::Result::from']),
    'k_geno_absent_is_missing': K('complete', 'none', ['genotype::Result::from']),
    'k_geno_try_from_raw': K('complete', 'none: all usize', ['Genotype::try_from_raw']),
    'k_npy_write_header_len': K('complete', 'none: all header_len values admissible for the version, 3 versions', ['Version::write_header_len', 'Version::header_len_bytes_len']),
    'k_npy_version_bytes': K('complete', 'none: all [u8;2]', ['Version::from_header_bytes', 'Version::to_header_bytes']),
    'k_npy_read_header_len': K('complete', 'none: all [u8;4]; short inputs of 1 and 3 bytes', ['Version::read_header_len']),
    'k_npy_decode_partial_value_is_error': K('bounded', 'streams of 3 and 6 bytes (f4 values), contents symbolic', ['TypeDescriptor::read']),
    'k_index_new_absurd_shape': K('complete', 'two axes, all usize lengths; data of 0 and 1 elements', ['Array::new']),
    'k_npy_decode_chunked_reader': K('bounded', 'stream of two big-endian i4 values (contents symbolic) through readers handing out 1 and 3 bytes per call', ['TypeDescriptor::read', 'get_read_fn']),
    'k_npy_header_write_short_writes': K('bounded', 'header of shape (3,) through sinks accepting 1, 3, 7 bytes per call (HeaderDict Display stubbed by its text)', ['Header::write', 'Version::write_header_len']),
    'k_npy_write_array_values_bit_exact': K('complete', 'shape (2,), both values over all 2^64 bit patterns (HeaderDict Display stubbed by its text)', ['npy::write_array', 'Header::write', 'Array::iter']),
    'k_npy_write_array_64_values': K('bounded', 'shape (64,), concrete values (HeaderDict Display stubbed by its text)', ['npy::write_array']),
    'k_fold_empty': K('bounded', 'shapes [0] and [2,0]', ['Spectrum::fold', 'Folded::from_spectrum']),
    'k_npy_f64_le_roundtrip': K('complete', 'none: all 2^64 bit patterns', ['f64::to_le_bytes', 'f64::from_le_bytes']),
    'k_detect_spectrum_format': K('complete', 'every byte string of length 0..=8', ['spectrum::io::Format::detect', 'detect_npy', 'detect_plain_text']),
    'k_detect_genotype_stream': K('complete', 'every stream of 0..=6 bytes, first fill_buf chunk of 3..=6 bytes (shorter first chunks: known finding F14)', ['CompressionMethod::detect', 'genotype::reader::builder::Format::detect (uncompressed branch)']),
    'k_proj_validation_2d': K('complete', 'two axes, all usize values', ['Projection::new']),
    'k_proj_validation_dimensions': K('complete', 'dimension pairs (2,1), (1,2); shapes with two axes over all usize', ['Projection::new', 'Projection::from_shapes', 'Count::try_from_shape']),
    'k_proj_wiring_4_to_3': K('bounded', 'shape [4] -> [3]', ['Spectrum::project', 'Projection::project_unchecked', 'Projected::add_unchecked', 'ProjectIter']),
    'k_proj_wiring_3x2_to_2x2': K('bounded', 'shape [3,2] -> [2,2]', ['Spectrum::project']),
    'k_marg_errors': K('bounded', '9 concrete rejected axis lists (duplicates adjacent and not, out-of-range incl. usize::MAX, all axes) and 2 accepted ones on a 3-axis spectrum', ['Spectrum::marginalize (validation)']),
    'k_marg_2x3_a0': K('bounded', 'shape [2,3], axis 0', ['Spectrum::marginalize', 'marginalize_unchecked', 'marginalize_axis', 'Array::sum']),
    'k_marg_2x3_a1': K('bounded', 'shape [2,3], axis 1', ['Spectrum::marginalize', 'Array::sum']),
    'k_marg_2x3x2_a1': K('bounded', 'shape [2,3,2], axis 1', ['Spectrum::marginalize', 'Array::sum']),
    'k_marg_2x3x2_a0': K('bounded', 'shape [2,3,2], axis 0 (remaining axes of different lengths)', ['Spectrum::marginalize', 'Array::sum']),
    'k_marg_2x3x2_a20': K('bounded', 'shape [2,3,2], axes [2,0] (descending); Array::sum replaced by its contract (sum_by_definition)', ['Spectrum::marginalize', 'marginalize_unchecked', 'marginalize_axis']),
    'k_marg_2x3x2_a01': K('bounded', 'shape [2,3,2], axes [0,1] (adjacent); Array::sum by contract', ['Spectrum::marginalize']),
    'k_marg_2x2x1x2_a302': K('bounded', 'shape [2,2,1,2], axes [3,0,2] (neither ascending nor descending); Array::sum by contract', ['Spectrum::marginalize']),
    'k_marg_2x2x1x2_a132': K('bounded', 'shape [2,2,1,2], axes [1,3,2]; Array::sum by contract', ['Spectrum::marginalize']),
    'k_marg_2x3x1x2_a031': K('bounded', 'shape [2,3,1,2], axes [0,3,1]; Array::sum by contract', ['Spectrum::marginalize']),
    'k_stat_king_r0_r1_definition': K('bounded', '3 concrete asymmetric integer 3x3 tables', ['King/R0/R1::from_spectrum']),
    'k_stat_monomorphic_1d': K('bounded', 'shapes [4], [5]; monomorphic cells over all f64 bit patterns', ['Theta<Watterson/Tajima>', 'D<Tajima/FuLi>', 'Scs::segregating_sites']),
    'k_stat_monomorphic_2d': K('bounded', 'shapes [3,3], [2,4]; monomorphic cells over all f64 bit patterns', ['PiXY', 'King', 'R0', 'R1', 'Scs::segregating_sites']),
    'k_stat_s_sum_pixy_definition': K('bounded', 'shape [3,4], integer-valued cells', ['Spectrum::sum', 'Scs::segregating_sites', 'PiXY::from_spectrum']),
    'k_project_individuals_no_wrap': K('complete', 'none: all usize values of one and two --project-individuals entries (the map/collect loop runs at most twice, unwinding assertion on)', ['Project::shape (site reader builder)']),
    'k_cli_fill_mapping': K('complete', 'none: all four Fill variants', ['impl From<Fill> for f64 (cli/src/fold.rs)']),
    'k_cli_statistic_dispatch_1d': K('bounded', 'one concrete [5] table; binomial stubbed by its table', ['Statistic::calculate (cli/src/stat.rs): Theta, Pi, S, Sum']),
    'k_cli_statistic_dispatch_d': K('bounded', 'one concrete [4] table; sqrt / powi / binomial stubbed identically on both sides (wiring only)', ['Statistic::calculate: DTajima, DFuLi']),
    'k_cli_statistic_dispatch_2d_counts': K('bounded', 'one concrete [3,3] table', ['Statistic::calculate: PiXY, King, R0, R1']),
    'k_cli_statistic_dispatch_2d_normalised': K('bounded', 'one concrete [2,3] table (Fst is NaN on it: only its wiring, not its normalisation, is visible)', ['Statistic::calculate: F2, Fst', 'Spectrum::into_normalized']),
    'k_cli_statistic_dispatch_3d': K('bounded', 'one concrete [2,2,2] table', ['Statistic::calculate: F3', 'Spectrum::into_normalized']),
    'k_cli_statistic_dispatch_4d': K('bounded', 'one concrete [2,2,2,2] table', ['Statistic::calculate: F4', 'Spectrum::into_normalized']),
    'k_stat_normalize_definition': K('bounded', 'one concrete 2x3 table (bit-exact per cell; sum within 1e-9 of one)', ['Spectrum::normalize', 'Spectrum::into_normalized', 'Spectrum::sum']),
    'k_stat_theta_pi_definition': K('bounded', 'count spectra with 3, 4, 5 chromosomes, one concrete table each, tolerance 1e-9; utils::binomial stubbed by its table', ['Theta<Watterson>::from_spectrum', 'Theta<Tajima>::from_spectrum', 'Estimator::estimate_unchecked', 'utils::harmonic']),
    'k_stat_f2_fst_definition': K('bounded', 'one normalised 3x4 table and its transpose, tolerance 1e-9; f64::powi stubbed by repeated multiplication', ['F2::from_sfs', 'Fst::from_sfs', 'FrequenciesIter::next', 'Spectrum::into_normalized']),
    'k_stat_f3_definition': K('bounded', 'one normalised 2x3x3 table, tolerance 1e-9; Array::sum stubbed by its contract, f64::powi by repeated multiplication', ['F3::from_sfs', 'F2::from_sfs', 'Spectrum::marginalize', 'FrequenciesIter::next']),
    'k_stat_f4_definition': K('bounded', 'one normalised 2x3x2x2 table, tolerance 1e-9', ['F4::from_sfs', 'FrequenciesIter::next']),
})
KANI_META.update(meta_for(SITE_NOPROJ, 'bounded', '3 input columns, 2 populations; column->population table and the results of two columns fixed per harness (in its name: table, symbolic column); the third column takes every genotype::Result incl. Error; pre-state: non-zero counts/totals and either a stale skipped entry or an empty skipped list (the two kinds of reachable pre-state alternate over the family)',
                          ['site::Reader::read_site', 'site::Reader::reset', 'Count::set_zero']))
KANI_META.update(meta_for(SITE_PROJDEC, 'bounded', 'as K-site no-projection, with a fixed projection target (in the name) and a dirty projection buffer: decision Standard / Projected / InsufficientData',
                          ['site::Reader::read_site (projection branch)', 'PartialProjection::project_unchecked']))
KANI_META.update(meta_for(SITE_PROJVAL, 'bounded', 'concrete record, fixed target (in the name), dirty projection buffer: every projected value = product of pmf_stub(t_j, a_j, m_j, k_j), row-major',
                          ['site::Reader::read_site', 'PartialProjection::project_unchecked', 'Projected::add_unchecked', 'ProjectIter::next', 'ProjectIter::project_value', 'Count::set_zero']))
KANI_META.update(meta_for(FOLD_QUICK + FOLD_THOROUGH, 'bounded', 'one concrete shape per harness (in its name), distinct integer-valued cells, fill over all f64 bit patterns',
                          ['Folded::from_spectrum', 'Folded::into_spectrum', 'Spectrum::fold', 'Shape::index_sum_from_flat_unchecked']))
KANI_META.update(meta_for(STAT_TOTAL, 'bounded', 'the shapes listed in the harness; all 14 statistics; utils::binomial stubbed by an exact table (n <= 8)',
                          ['Spectrum::{theta_watterson,pi,pi_xy,king,r0,r1,f2,f3,f4,fst,sum}', 'Scs::{d_tajima,d_fu_li,segregating_sites}']))

A_NOODLES = 'noodles-vcf / noodles-bcf / noodles-bgzf / flate2 decode the input into sample names and allele positions correctly (dependencies, not verified)'
A_SAMPLEMAP = 'sample::Map lookups (IndexMap/HashMap over String, SipHash) are replaced in K-site by their contract: a consistent column -> population table; sample::Map::shape/from_iter/population_sizes are not verified'
A_PMF = 'utils::hypergeometric_pmf / binomial / ln_gamma (f64 through ln/exp) are replaced by stubs in the Kani harnesses and by an uninterpreted function in Verus: their numerical values are NOT decided'
A_FLOATSUM = 'f64 addition is exercised on integer-valued cells only (exact); order-of-summation effects on general floats are not decided'
A_BIN = 'the sfs-cli binary (clap parsing, anyhow/log, file/stdin/stdout handling, exit status) is not under contract'

REGISTRY = {
    'C01': {
        'title': 'create counts every complete site once at its per-population ALT index',
        'level': 'model_checking',
        'verus': ['v_geno'],
        'kani_quick': ['k_geno_diploid_classification', 'k_site_noproj_abn_c0', 'k_site_noproj_abn_c2', 'k_site_noproj_aab_c1'],
        'kani_thorough': ['k_site_noproj_aab_c2', 'k_site_noproj_baa_c0', 'k_site_noproj_nba_c1', 'k_index_get_2x3', 'k_index_bijection_2x3'],
        'assumptions': [A_NOODLES, A_SAMPLEMAP, A_BIN, 'Runner::run adds 1.0 at the index returned by read_site (bin crate, not verified); the shape rule 1+2*size is part of the assumed sample::Map contract'],
        'not_decided': ['end-to-end composition VCF/BCF bytes -> printed integers', 'sample::Map::shape', 'Runner::run', 'precision 0 printing'],
    },
    'C02': {
        'title': 'create --project: hypergeometric down-sampling of every covered site',
        'level': 'model_checking',
        'verus': ['v_projiter'],
        'verus_pairs': {'v_projiter': ['k_proj_wiring_3x2_to_2x2']},
        'kani_quick': ['k_site_projdec_aab_c0_to22', 'k_site_projdec_aab_c1_to20', 'k_site_projval_aab_to21', 'k_proj_validation_2d', 'k_project_individuals_no_wrap'],
        'kani_thorough': ['k_site_projdec_aab_c2_to42', 'k_site_projdec_baa_c1_to02', 'k_site_projdec_nba_c0_to22', 'k_site_projval_baa_to12', 'k_site_projval_aab_to02', 'k_proj_wiring_4_to_3', 'k_proj_wiring_3x2_to_2x2', 'k_proj_validation_dimensions'],
        'assumptions': [A_NOODLES, A_SAMPLEMAP, A_PMF, A_BIN, 'site::reader::Builder::build (dimension/size validation against the sample map, individuals -> 2i+1) needs the hash-map sample table and is not verified'],
        'not_decided': ['values of the hypergeometric pmf', '--project-individuals i == --project-shape 2i+1 (builder.rs Project::shape, not under contract)', '--precision printing'],
    },
    'C03': {
        'title': 'projection is exact hypergeometric down-sampling at every size; its laws hold',
        'level': 'model_checking',
        'verus': ['v_projiter'],
        'verus_pairs': {'v_projiter': ['k_proj_wiring_3x2_to_2x2']},
        'kani_quick': ['k_proj_validation_2d', 'k_proj_validation_dimensions', 'k_proj_wiring_4_to_3'],
        'kani_thorough': ['k_proj_wiring_3x2_to_2x2'],
        'assumptions': [A_PMF, A_FLOATSUM],
        'not_decided': ['that the coefficient equals the hypergeometric pmf; finiteness for thousands of chromosomes; mass preservation, identity, two-step, commutation laws (real-number identities of the pmf)'],
    },
    'C04': {
        'title': 'marginalization is the array sum over the removed axes',
        'level': 'proof',
        'verus': ['v_view', 'v_axisiter'],
        'verus_pairs': {'v_view': ['k_view_axis_views_2x3x2'], 'v_axisiter': ['k_view_axis_views_2x3x2']},
        'kani_quick': ['k_marg_errors', 'k_marg_2x3_a0', 'k_marg_2x2x1x2_a302', 'k_marg_2x2x1x2_a132', 'k_view_axis_views_2x3x2'],
        'kani_thorough': ['k_marg_2x3x2_a0', 'k_marg_2x3x2_a1', 'k_marg_2x3x2_a20', 'k_marg_2x3x2_a01', 'k_marg_2x3x1x2_a031'],
        'assumptions': [A_FLOATSUM, A_BIN, 'Array::sum / marginalize_unchecked (iterator adapters) are checked by Kani on the listed shapes only; in the multi-axis marginalize harnesses Array::sum is replaced by its contract (sum_by_definition), which the single-axis harnesses check against the real sum'],
        'not_decided': ['--marginalize-keep complement (View::run, bin crate)', 'create/marginalize relation on call sets'],
    },
    'C05': {
        'title': 'folding is mass-preserving, idempotent and symmetric under allele polarity',
        'level': 'proof',
        'verus': ['v_indexsum'],
        'verus_pairs': {'v_indexsum': ['k_fold_1x3', 'k_fold_3x1x1x2']},
        'kani_quick': FOLD_QUICK + ['k_cli_fill_mapping'],
        'kani_thorough': FOLD_THOROUGH,
        'assumptions': [A_FLOATSUM, A_BIN, 'Shape::elements (iterator product) is assumed in V-indexsum and checked by K-index on concrete shapes',
                        "REWRITE in V-indexsum: `n /= v` (v: &usize) is verified as `n /= *v` (core's forward_ref_op_assign impl)"],
        'not_decided': ['I/O of `sfs fold` (bin crate; the Fill -> f64 mapping is decided by k_cli_fill_mapping)'],
    },
    'C06': {
        'title': 'statistics equal their definitions on genotypes and the published estimators',
        'level': 'model_checking',
        'kani_quick': ['k_stat_king_r0_r1_definition', 'k_stat_s_sum_pixy_definition', 'k_stat_theta_pi_definition', 'k_cli_statistic_dispatch_1d'],
        'kani_thorough': ['k_stat_f2_fst_definition', 'k_stat_f3_definition', 'k_stat_f4_definition', 'k_cli_statistic_dispatch_d', 'k_cli_statistic_dispatch_2d_counts',
                          'k_cli_statistic_dispatch_2d_normalised', 'k_cli_statistic_dispatch_3d', 'k_cli_statistic_dispatch_4d'],
        'assumptions': [A_PMF, A_FLOATSUM, A_BIN, 'f64::powi(x, 2) = x * x (stub in the f2/Fst/f3 harnesses: CBMC\'s powi model is not exact)', 'f64::sqrt is replaced by the identity on both sides of k_cli_statistic_dispatch_d, which therefore checks the wiring of the D statistics only'],
        'not_decided': ['f2, f3, f4, Fst, Watterson, pi beyond one concrete table per harness (symbolic f64 cells do not finish; BOUNDED stand-ins with tolerance 1e-9 only)', 'Tajima D, Fu-Li D (sqrt, binomial through exp/ln): only totality (C17) and independence of the monomorphic cells (C14)', 'genotype-level reading of all 14 (composition with create)', 'Stat::run / stat Runner (precision pairing, printing): bin crate I/O; only Statistic::calculate is under harness'],
    },
    'C07': {
        'title': 'spectrum files round-trip through text and npy; the tool reads what it writes',
        'level': 'proof',
        'verus': ['v_npyhdr'],
        'verus_pairs': {'v_npyhdr': ['k_npy_write_array_values_bit_exact']},
        'kani_quick': ['k_npy_f64_le_roundtrip', 'k_npy_decode_f8', 'k_npy_write_array_values_bit_exact', 'k_detect_spectrum_format'],
        'kani_thorough': [],
        'assumptions': ['claimed for the npy value path only: writer emits the values in data order as 8 little-endian bytes (V-npyhdr), f64 LE encode/decode is the identity on all bit patterns and the f8 decoder returns the decoded chunk (Kani)',
                        'HeaderDict Display text and the nom header parser are not verified (string formatting / parsing in std and nom)'],
        'not_decided': ['text format ({:.p$} and f64::from_str are std algorithms)', 'shape round trip through the header text', 'auto-detection through pipes, cross-command acceptance'],
    },
    'C08': {
        'title': 'genotype to allele-count classification is total and exact',
        'level': 'proof',
        'verus': ['v_geno'],
        'kani_quick': ['k_geno_diploid_classification', 'k_geno_haploid_is_ploidy_error', 'k_geno_triploid_is_ploidy_error',
                       'k_geno_absent_is_missing', 'k_geno_try_from_raw', 'k_site_noproj_nba_c1'],
        'assumptions': [A_NOODLES, 'ploidy > 3 behaves like ploidy 3 (slice pattern [a, b] matches length 2 only)', A_SAMPLEMAP],
        'not_decided': ['error message naming contig:position (anyhow! in the bin crate)', 'GT text / BCF bytes -> alleles (noodles)'],
    },
    'C09': {
        'title': 'axes follow first appearance of population labels; only listed samples count',
        'level': 'model_checking',
        'verus': ['v_popmap'],
        'kani_quick': ['k_site_noproj_abn_c2', 'k_site_noproj_baa_c0'],
        'kani_thorough': ['k_site_noproj_nba_c1', 'k_site_noproj_aab_c1'],
        'assumptions': [A_SAMPLEMAP, A_NOODLES, A_BIN,
                        'V-popmap: indexmap::IndexSet is replaced by an ASSUMED model (insertion-ordered duplicate-free sequence; get_index_of = position, insert_full = append-if-new) written in the unit, because single-file Verus cannot link the crate; element equality taken as structural'],
        'not_decided': ['composition of the first-appearance id assignment: population::Map::insert is under contract (V-popmap: a known label keeps its id and changes nothing, a new label gets the next id), but get (`.map(Id)`: constructor as function value) and get_or_insert (closure mutating its capture) are outside Verus\' subset and the hash set is outside CBMC\'s reach; sample::Map::from_iter which drives them is not verified',
                        'samples-file parsing, --samples vs --samples-file, unknown-sample / empty-list errors (Builder::build)'],
    },
    'C11': {
        'title': "a site's contribution is independent of earlier sites (additive, order-free)",
        'level': 'model_checking',
        'verus': ['v_projiter'],
        'verus_pairs': {'v_projiter': ['k_site_projval_aab_to21']},
        'kani_quick': ['k_site_noproj_aab_c2', 'k_site_noproj_aab_c1', 'k_site_projval_aab_to02', 'k_site_projdec_aab_c2_to42', 'k_site_projdec_baa_c1_to02'],
        'assumptions': [A_SAMPLEMAP, A_PMF, 'history independence is shown by running read_site from an ARBITRARY pre-state of counts/totals/skipped list/projection buffer: every reachable state is an instance'],
        'not_decided': ['additivity / permutation of the running sum in Runner::run (bin crate)', 'floating-point summation order with projection'],
    },
    'C14': {
        'title': 'statistics are invariant under the transformations that must not matter',
        'level': 'model_checking',
        'kani_quick': ['k_stat_king_r0_r1_definition', 'k_stat_monomorphic_1d', 'k_stat_normalize_definition'],
        'kani_thorough': ['k_stat_monomorphic_2d', 'k_stat_f2_fst_definition', 'k_stat_f3_definition'],
        'assumptions': [A_PMF, A_FLOATSUM, 'f64::powi(x, 2) = x * x (stub in the f2/Fst/f3 harnesses)'],
        'not_decided': ['f4 as a combination of f2 of marginals, invariance under folding, general positive scale factors, pi_xy swap symmetry; f3 = (f2+f2-f2)/2 and f2/Fst swap symmetry only on one concrete table each up to 1e-9 (real-number identities that do not hold bitwise in f64)'],
    },
    'C15': {
        'title': 'npy output conforms to NPY 1.0; every supported numpy dtype is read exactly',
        'level': 'proof',
        'verus': ['v_npyhdr'],
        'verus_pairs': {'v_npyhdr': ['k_npy_write_array_values_bit_exact', 'k_npy_header_write_short_writes', 'k_npy_write_array_64_values']},
        'kani_quick': ['k_npy_write_header_len', 'k_npy_version_bytes', 'k_npy_read_header_len', 'k_npy_write_array_values_bit_exact'] + DECODERS,
        'kani_thorough': [],
        'assumptions': ['io::Write::write_all contract (std documentation) is assumed in V-npyhdr', 'HeaderDict Display text is an uninterpreted function of (descr, fortran_order, shape) in V-npyhdr; its literal form and the nom parser are not verified',
                        'dictionary text shorter than 65000 bytes (shape with at most 1000 axes)'],
        'not_decided': ['exact dictionary text; parser acceptance of header spelling variants (nom)', 'rejection of Fortran order / unsupported dtypes through the header parser'],
    },
    'C16': {
        'title': 'damaged spectrum files are rejected, never read as a different spectrum',
        'level': 'model_checking',
        'kani_quick': ['k_npy_read_header_len', 'k_detect_spectrum_format', 'k_index_new_absurd_shape', 'k_index_get_2x3_len1'],
        'kani_thorough': ['k_npy_decode_partial_value_is_error', 'k_npy_read_array_exact'],
        'assumptions': ['k_npy_read_array_exact runs the real read_array with Header::read replaced by an assumed result (v1.0, <f8, C order, shape (2,)): exactly prod(shape) values give the declared shape and the values bit for bit; the rejecting cases of read_array exceeded 10 GB under CBMC (io::Error::new) and stay decided piecewise',
                        'claimed for the value section and the length field: a partial trailing value or a short length field is an error; Array::new rejects a value count different from the product of the shape (checked with K-index harnesses through Array::from_iter)',
                        'truncation inside the header dictionary and text-format damage go through nom / str parsing and are not verified'],
        'not_decided': ['text token removal/insertion', 'CLI exit status and "nothing written"'],
    },
    'C17': {
        'title': 'every invocation ends in success or a diagnosed error, never a panic',
        'level': 'model_checking',
        'verus': ['v_axis', 'v_view', 'v_axisiter', 'v_npyhdr', 'v_indexsum', 'v_projiter'],
        'kani_quick': ['k_detect_spectrum_format', 'k_index_new_absurd_shape', 'k_marg_errors', 'k_proj_validation_2d', 'k_project_individuals_no_wrap', 'k_stat_total_1d_1', 'k_stat_total_1d_2', 'k_stat_total_1d_3'],
        'kani_thorough': STAT_TOTAL + ['k_fold_empty'],
        'assumptions': [A_BIN, A_NOODLES, 'panic-freedom (overflow, bounds, unwrap/expect, division) is an obligation of every function under contract in the Verus units and of every Kani harness; it is claimed for those functions under their stated preconditions only'],
        'not_decided': ['totality of the process over arbitrary bytes (noodles, flate2, nom, clap)', "main's mapping of Err to exit status 1", 'sample::Map::shape unwrap on contradictory sample lists'],
    },
    'C18': {
        'title': 'results do not depend on how the byte stream is chunked; I/O errors surface',
        'level': 'proof',
        'verus': ['v_npyhdr'],
        'verus_pairs': {'v_npyhdr': ['k_npy_header_write_short_writes', 'k_npy_write_array_values_bit_exact']},
        'kani_quick': ['k_detect_genotype_stream', 'k_npy_read_header_len', 'k_npy_decode_chunked_reader'],
        'kani_thorough': ['k_npy_decode_partial_value_is_error', 'k_npy_header_write_short_writes', 'k_npy_write_array_64_values'],
        'assumptions': ['writer: for every sink obeying the write_all contract the bytes are the same sequence however many the sink accepts per call, and Ok is returned only if no write failed (V-npyhdr, unbounded)',
                        'reader: read_exact / fill_buf of std are assumed chunk-independent; the npy value loop is exercised on slices only'],
        'not_decided': ['VCF/BCF/BGZF streams (noodles, flate2)', 'text writer (writeln!/format!)', 'BGZF branch of format detection (gzip decoder over the first buffer)'],
    },
    'C19': {
        'title': 'array, axis-view and iterator API invariants',
        'level': 'proof',
        'verus': ['v_axis', 'v_view', 'v_axisiter', 'v_indexsum'],
        'verus_pairs': {'v_view': ['k_view_axis_views_2x3x2'], 'v_axisiter': ['k_view_axis_views_2x3x2', 'k_view_axis_iter_4'], 'v_axis': ['k_view_axis_views_3']},
        'kani_quick': VIEW_QUICK + INDEX_QUICK,
        'kani_thorough': VIEW_THOROUGH + INDEX_THOROUGH,
        'assumptions': ['Array representation invariant (data length = product of shape, strides = suffix products) is a precondition of the Verus contracts; it is established by Array::new/new_unchecked + Shape::strides, which use iterator adapters and are checked by Kani on the listed shapes',
                        'RemovedAxis<Shape>::elements and Shape/Strides::as_ref contracts are assumed in V-view/V-axisiter (as_ref is proved in V-axis; elements is checked by K-view)',
                        'flat <-> multi-index bijection: proved as mathematics over the row-major spec functions (V-indexsum lemmas), and for the real index_from_flat_unchecked/flat_index by Kani on the listed shapes'],
        'not_decided': [],
    },
}

for _p in REGISTRY.values():
    _p['kani_meta'] = KANI_META
