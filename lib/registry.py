"""Which units and harnesses decide which property.  (Properties are given in
/verif/properties.jsonl; this file only wires machinery to ids.)"""

TRUSTED_ALWAYS = [
    'Verus 0.2026.09.13 (VC generation, z3) and vstd specifications of Vec/slice/Option/integer operations',
    'Kani 0.68.0 / CBMC 6.11 (memory model, cadical SAT back end); termination is not verified by Kani',
    'rustc: the extracted functions are compiled by Verus\' rustc 1.98.1, the shipped binary by 1.95.0',
]

REGISTRY = {
    'C08': {
        'title': 'genotype to allele-count classification is total and exact',
        'level': 'proof',
        'verus': ['v_geno'],
        'kani_quick': ['k_geno_diploid_classification', 'k_geno_haploid_is_ploidy_error',
                       'k_geno_triploid_is_ploidy_error', 'k_geno_absent_is_missing', 'k_geno_try_from_raw'],
        'kani_meta': {
            'k_geno_diploid_classification': {'kind': 'complete', 'bound': 'none: loop-free, all Option<usize> x Option<usize> x phasings',
                                              'functions': ['impl From<Option<VcfGenotype>> for genotype::Result :: from', 'Genotype::try_from_raw']},
            'k_geno_haploid_is_ploidy_error': {'kind': 'complete', 'bound': 'none: loop-free', 'functions': ['genotype::Result::from']},
            'k_geno_triploid_is_ploidy_error': {'kind': 'complete', 'bound': 'none: loop-free', 'functions': ['genotype::Result::from']},
            'k_geno_absent_is_missing': {'kind': 'complete', 'bound': 'none', 'functions': ['genotype::Result::from']},
            'k_geno_try_from_raw': {'kind': 'complete', 'bound': 'none: all usize', 'functions': ['Genotype::try_from_raw']},
        },
        'assumptions': ['noodles-vcf parses GT text / noodles-bcf decodes int8 vectors into allele positions correctly (dependency, not verified)',
                        'ploidy > 3 behaves like ploidy 3 (slice pattern [a, b] matches length 2 only)'],
        'not_decided': ['error message naming contig:position (anyhow! in the bin crate)', 'GT text/BCF bytes -> alleles (noodles)'],
    },
    'C19': {
        'title': 'array, axis-view and iterator API invariants',
        'level': 'proof',
        'verus': ['v_axis'],
        'kani_quick': [],
    },
}
