use vstd::prelude::*;
use std::ops::Deref;
verus! {

pub struct Shape(pub Vec<usize>);

impl Deref for Shape {
    type Target = [usize];

    fn deref(&self) -> &Self::Target {
        &self.0
    }
}

impl Shape {
    pub(crate) fn index_sum_from_flat_unchecked(&self, mut flat: usize) -> usize {
        let mut n = self.elements();
        let mut sum = 0;
        for v in self.iter() {
            n /= v;
            sum += flat / n;
            flat %= n;
        }
        sum
    }

    pub fn len2(&self) -> usize { self.len() }

    #[verifier::external_body]
    pub fn elements(&self) -> usize {
        self.iter().product()
    }
}

} // verus!
fn main() {}
