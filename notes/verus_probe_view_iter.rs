#![feature(sized_hierarchy)]
use vstd::prelude::*;
use core::marker::PointeeSized;
use vstd::view::View as _;
use std::ops::{Deref, Index};
verus! {

#[verifier::external_trait_specification]
#[verifier::external_trait_extension(AsRefSpec via AsRefSpecImpl)]
pub trait ExAsRef<T: PointeeSized>: PointeeSized {
    type ExternalTraitSpecificationFor: core::convert::AsRef<T>;
    spec fn as_ref_spec(&self) -> &T;
    fn as_ref(&self) -> (r: &T)
        ensures r == self.as_ref_spec();
}

pub struct Axis(pub usize);
impl Deref for Axis {
    type Target = usize;

    fn deref(&self) -> &Self::Target {
        &self.0
    }
}

pub struct Shape(pub Vec<usize>);
pub struct Strides(pub Vec<usize>);
pub uninterp spec fn shape_slice(s: &Shape) -> &[usize];
pub uninterp spec fn strides_slice(s: &Strides) -> &[usize];

impl AsRef<[usize]> for Shape {
    #[verifier::external_body]
    fn as_ref(&self) -> &[usize] {
        self
    }
}
impl AsRefSpecImpl<[usize]> for Shape {
    open spec fn as_ref_spec(&self) -> &[usize] { shape_slice(self) }
}
impl AsRef<[usize]> for Strides {
    #[verifier::external_body]
    fn as_ref(&self) -> &[usize] {
        self
    }
}
impl AsRefSpecImpl<[usize]> for Strides {
    open spec fn as_ref_spec(&self) -> &[usize] { strides_slice(self) }
}
impl Deref for Shape {
    type Target = [usize];
    fn deref(&self) -> &Self::Target {
        &self.0
    }
}
impl Deref for Strides {
    type Target = [usize];
    fn deref(&self) -> &Self::Target {
        &self.0
    }
}

pub struct RemovedAxis<'a, T> {
    inner: &'a T,
    removed: Axis,
}

impl<'a, T> RemovedAxis<'a, T>
where
    T: AsRef<[usize]>,
{
    pub closed spec fn inner_seq(&self) -> Seq<usize> { (*self.inner.as_ref_spec())@ }
    pub closed spec fn removed_ax(&self) -> int { self.removed.0 as int }
    pub open spec fn spec_len(&self) -> int { self.inner_seq().len() - 1 }
    pub open spec fn spec_get(&self, index: int) -> usize { if index < self.removed_ax() { self.inner_seq()[index] } else { self.inner_seq()[index + 1] } }

    pub fn get(&self, index: usize) -> (r: Option<&'a usize>)
        requires index < usize::MAX
        ensures
            r.is_some() <==> index < self.spec_len(),
            r.is_some() ==> *r.unwrap() == self.spec_get(index as int),
    {
        let inner = self.inner.as_ref();

        if index < *self.removed {
            inner.get(index)
        } else {
            inner.get(index + 1)
        }
    }

    pub fn len(&self) -> (r: usize)
        requires self.inner_seq().len() > 0
        ensures r == self.spec_len()
    {
        self.inner.as_ref().len() - 1
    }
}

impl<'a, T> Index<usize> for RemovedAxis<'a, T>
where
    T: AsRef<[usize]>,
{
    type Output = usize;

    fn index(&self, index: usize) -> (r: &Self::Output)
    {
        self.get(index).expect("index out of bounds")
    }
}

pub struct View<'a, T> {
    data: &'a [T], // first element is first element in view
    shape: RemovedAxis<'a, Shape>,
    strides: RemovedAxis<'a, Strides>,
}

pub struct Iter<'a, T> {
    view: View<'a, T>,
    coords: Vec<usize>,
    offset: usize,
    index: usize,
}

impl<'a, T> Iter<'a, T> {
    fn backstride(&self, axis: usize) -> usize {
        self.view.strides[axis] * (self.view.shape[axis] - 1)
    }

    fn impl_next_rec(&mut self, axis: usize) -> Option<&'a T> {
        if self.index == 0 {
            self.index += 1;
            return self.view.data.first();
        };

        self.coords[axis] += 1;
        if self.coords[axis] < self.view.shape[axis] {
            self.offset += self.view.strides[axis];
            self.index += 1;
            self.view.data.get(self.offset)
        } else if axis > 0 {
            self.coords[axis] = 0;
            self.offset -= self.backstride(axis);
            self.impl_next_rec(axis - 1)
        } else {
            None
        }
    }
}

} // verus!
fn main() {}
