#![feature(panic_internals)]
#![feature(core_panic)]
use vstd::prelude::*;
use std::io;
verus! {

#[verifier::external_type_specification]
#[verifier::external_body]
pub struct ExIoError(std::io::Error);

#[verifier::external_trait_specification]
pub trait ExWrite {
    type ExternalTraitSpecificationFor: std::io::Write;
    fn write_all(&mut self, buf: &[u8]) -> std::io::Result<()>;
}

#[verifier::external_type_specification]
pub struct ExAssertKind(core::panicking::AssertKind);
pub assume_specification<T: core::fmt::Debug + ?Sized, U: core::fmt::Debug + ?Sized> [core::panicking::assert_failed] (_0: core::panicking::AssertKind, _1: &T, _2: &U, _3: std::option::Option<std::fmt::Arguments<'_>>) -> !
    requires false;

const ALIGN: usize = 64;

pub fn write_hdr<W>(dict_len: usize, writer: &mut W) -> io::Result<()>
where
    W: io::Write,
{
    let magic: [u8; 6] = [0x93, 78, 85, 77, 80, 89];
    writer.write_all(&magic)?;
    let len = 6 + 2 + 2 + dict_len;
    let rem = len % ALIGN;
    let pad_len = if rem == 0 { 0 } else { ALIGN - rem };
    assert_eq!((len + pad_len) % ALIGN, 0);
    let mut pad = vec![b' '; pad_len];
    pad[pad_len - 1] = b'\n';
    writer.write_all(&pad[..])
}

} // verus!
fn main() {}
