//! Kani proof harnesses compiled *inside* the `sfs` binary crate (cfg(kani) hook at the end of
//! cli/src/main.rs): the pure, separable functions of the command-line layer.
//! Harness naming: k_cli_<what> (the runner maps the prefix to `cargo kani -p sfs-cli`).
#![allow(dead_code, unused_imports, clippy::all)]

use sfs_core::{array::Shape, Scs};

use crate::fold::Fill;
use crate::stat::Statistic;

/// `sfs fold --fill`: the four keywords map to NaN, 0, -1, +inf (C05; complete: all variants)
#[kani::proof]
fn k_cli_fill_mapping() {
    assert!(f64::from(Fill::Nan).is_nan(), "nan -> NaN");
    assert!(f64::from(Fill::Zero).to_bits() == 0.0f64.to_bits(), "zero -> +0.0");
    assert!(f64::from(Fill::MinusOne) == -1.0, "minus-one -> -1");
    assert!(f64::from(Fill::Inf) == f64::INFINITY, "inf -> +infinity");
    kani::cover!(true);
}

fn iota(shape: &[usize]) -> Scs {
    let mut n = 1;
    let mut k = 0;
    while k < shape.len() {
        n *= shape[k];
        k += 1;
    }
    let mut data = Vec::with_capacity(n);
    let mut p = 0;
    while p < n {
        data.push((p * p + 2 * p + 3) as f64);
        p += 1;
    }
    Scs::new(data, Shape(shape.to_vec())).unwrap()
}

fn same(a: f64, b: f64) -> bool {
    a.to_bits() == b.to_bits() || (a.is_nan() && b.is_nan())
}

pub(crate) fn binomial_stub(n: u64, k: u64) -> f64 {
    if k > n || n > 4 {
        return 0.0;
    }
    const T: [[u64; 5]; 5] = [[1, 0, 0, 0, 0], [1, 1, 0, 0, 0], [1, 2, 1, 0, 0], [1, 3, 3, 1, 0], [1, 4, 6, 4, 1]];
    T[n as usize][k as usize] as f64
}

/// deterministic stand-in for sqrt (CBMC does not finish on the real one): both sides of the comparison
/// below go through the same stub, so the wiring is what is checked, not the value
pub(crate) fn sqrt_stub(x: f64) -> f64 {
    x
}

pub(crate) fn powi_stub(x: f64, n: i32) -> f64 {
    let mut r = 1.0;
    let mut k = 0;
    while k < n && k < 4 {
        r *= x;
        k += 1;
    }
    r
}

/// `Statistic::calculate` (C06): every 1-D statistic name is wired to its statistic of the *count* spectrum
#[kani::proof]
#[kani::unwind(8)]
#[kani::stub(sfs_core::utils::binomial, binomial_stub)]
fn k_cli_statistic_dispatch_1d() {
    let scs = iota(&[5]);
    assert!(same(Statistic::Theta.calculate(&scs).unwrap(), scs.theta_watterson().unwrap()), "theta -> Watterson's theta");
    assert!(same(Statistic::Pi.calculate(&scs).unwrap(), scs.pi().unwrap()), "pi -> pi");
    assert!(same(Statistic::S.calculate(&scs).unwrap(), scs.segregating_sites()), "s -> segregating sites");
    assert!(same(Statistic::Sum.calculate(&scs).unwrap(), scs.sum()), "sum -> sum");
    // the results are pairwise different on this table, so a swapped wiring is visible
    assert!(scs.theta_watterson().unwrap() != scs.pi().unwrap() && scs.segregating_sites() != scs.sum(), "distinct oracle values");
    kani::cover!(true);
}

/// `Statistic::calculate` (C06): the two D statistics (sqrt and powi stubbed identically on both sides)
#[kani::proof]
#[kani::unwind(8)]
#[kani::stub(sfs_core::utils::binomial, binomial_stub)]
#[kani::stub(f64::sqrt, sqrt_stub)]
#[kani::stub(f64::powi, powi_stub)]
fn k_cli_statistic_dispatch_d() {
    let scs = iota(&[4]);
    assert!(same(Statistic::DTajima.calculate(&scs).unwrap(), scs.d_tajima().unwrap()), "d-tajima -> Tajima's D");
    assert!(same(Statistic::DFuLi.calculate(&scs).unwrap(), scs.d_fu_li().unwrap()), "d-fu-li -> Fu and Li's D");
    assert!(!same(scs.d_tajima().unwrap(), scs.d_fu_li().unwrap()), "distinct oracle values");
    kani::cover!(true);
}

/// `Statistic::calculate` (C06): pi_xy, KING, R0, R1 are taken of the counts
#[kani::proof]
#[kani::unwind(20)]
fn k_cli_statistic_dispatch_2d_counts() {
    let scs = iota(&[3, 3]);
    assert!(same(Statistic::PiXY.calculate(&scs).unwrap(), scs.pi_xy().unwrap()), "pi-xy -> pi_xy of the counts");
    assert!(same(Statistic::King.calculate(&scs).unwrap(), scs.king().unwrap()), "king -> KING");
    assert!(same(Statistic::R0.calculate(&scs).unwrap(), scs.r0().unwrap()), "r0 -> R0");
    assert!(same(Statistic::R1.calculate(&scs).unwrap(), scs.r1().unwrap()), "r1 -> R1");
    assert!(scs.r0().unwrap() != scs.r1().unwrap() && scs.king().unwrap() != scs.r0().unwrap(), "distinct oracle values");
    kani::cover!(true);
}

/// `Statistic::calculate` (C06, C14): f2 and Fst are taken of the *normalised* spectrum
#[kani::proof]
#[kani::unwind(12)]
#[kani::stub(f64::powi, powi_stub)]
fn k_cli_statistic_dispatch_2d_normalised() {
    let scs = iota(&[2, 3]);
    let sfs = scs.clone().into_normalized();
    assert!(same(Statistic::F2.calculate(&scs).unwrap(), sfs.f2().unwrap()), "f2 -> f2 of the normalised spectrum");
    assert!(same(Statistic::Fst.calculate(&scs).unwrap(), sfs.fst().unwrap()), "fst -> Fst of the normalised spectrum");
    kani::cover!(true);
}

/// `Statistic::calculate` (C06): f3 is taken of the normalised spectrum
#[kani::proof]
#[kani::unwind(12)]
fn k_cli_statistic_dispatch_3d() {
    let scs = iota(&[2, 2, 2]);
    assert!(same(Statistic::F3.calculate(&scs).unwrap(), scs.clone().into_normalized().f3().unwrap()), "f3 -> f3 of the normalised spectrum");
    assert!(!same(scs.clone().into_normalized().f3().unwrap(), unnormalised_f3(&scs)), "normalisation is visible on this table");
    kani::cover!(true);
}

fn unnormalised_f3(scs: &Scs) -> f64 {
    // f3 is linear in the cells: f3(x) = sum(x) * f3(x / sum(x))
    scs.sum() * scs.clone().into_normalized().f3().unwrap()
}

/// `Statistic::calculate` (C06): f4 is taken of the normalised spectrum
#[kani::proof]
#[kani::unwind(20)]
fn k_cli_statistic_dispatch_4d() {
    let scs = iota(&[2, 2, 2, 2]);
    assert!(same(Statistic::F4.calculate(&scs).unwrap(), scs.clone().into_normalized().f4().unwrap()), "f4 -> f4 of the normalised spectrum");
    kani::cover!(true);
}

#[cfg(test)]
mod playback {
    #[allow(unused_imports)]
    use super::*;
    include!("/verif/.build/playback/cli.rs");
}
