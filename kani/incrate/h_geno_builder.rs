//! compiled as a child module of core/src/input/genotype/reader/builder.rs (private detect fns reachable)
//! K-detect (C18, C12 fragment): compression / format detection as a function of the *stream*, for
//! every way the first `fill_buf` chunk can be cut.
#[allow(unused_imports)]
use super::*;
use crate::verif_kani::playback_tests;

/// BufRead over a byte array whose first fill_buf returns `first` bytes and later ones everything
pub(crate) struct Chunked<'a> {
    data: &'a [u8],
    pos: usize,
    first: usize,
}

impl<'a> io::Read for Chunked<'a> {
    fn read(&mut self, buf: &mut [u8]) -> io::Result<usize> {
        let avail = io::BufRead::fill_buf(self)?;
        let n = if avail.len() < buf.len() { avail.len() } else { buf.len() };
        let mut i = 0;
        while i < n {
            buf[i] = avail[i];
            i += 1;
        }
        io::BufRead::consume(self, n);
        Ok(n)
    }
}

impl<'a> io::BufRead for Chunked<'a> {
    fn fill_buf(&mut self) -> io::Result<&[u8]> {
        let end = if self.pos == 0 && self.first < self.data.len() { self.first } else { self.data.len() };
        Ok(&self.data[self.pos..end.max(self.pos)])
    }
    fn consume(&mut self, n: usize) {
        self.pos += n;
    }
}

fn detect_with_first_chunk(first_lo: usize) {
    let bytes: [u8; 6] = kani::any();
    let n: usize = kani::any();
    kani::assume(n <= 6);
    let first: usize = kani::any();
    kani::assume(first >= first_lo && first >= 1 && first <= 6);
    let mut r = Chunked { data: &bytes[..n], pos: 0, first };
    let cm = CompressionMethod::detect(&mut r).unwrap();
    let gz = n >= 2 && bytes[0] == 0x1f && bytes[1] == 0x8b;
    assert!(cm.is_some() == gz, "gzip magic at the start of the stream <=> BGZF, for every first-chunk length");
    assert!(r.pos == 0, "detection consumes nothing");
    if !gz {
        let f = Format::detect(&mut r, None).unwrap();
        let bcf = n >= 3 && bytes[0] == b'B' && bytes[1] == b'C' && bytes[2] == b'F';
        assert!((f == Format::Bcf) == bcf, "BCF magic at the start of the stream <=> BCF, for every first-chunk length");
        assert!(r.pos == 0, "detection consumes nothing (2)");
    }
    kani::cover!(gz);
    kani::cover!(!gz && n >= 3 && bytes[0] == b'B' && bytes[1] == b'C' && bytes[2] == b'F');
}

/// carve-out of known finding F14: first chunk at least 3 bytes (or the whole stream)
#[kani::proof]
#[kani::unwind(8)]
fn k_detect_genotype_stream() {
    detect_with_first_chunk(3);
}

/// WITNESS of known finding F14 (expected to FAIL): a first chunk of 1 or 2 bytes hides the magic
#[kani::proof]
#[kani::unwind(8)]
fn k_detect_genotype_stream_witness_short_first_chunk() {
    detect_with_first_chunk(1);
}

playback_tests!("h_geno_builder");
