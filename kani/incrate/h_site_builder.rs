//! compiled as a child module of core/src/input/site/reader/builder.rs (private `Project::shape` reachable)
//! K-sitebuilder (C17): option values at and beyond their bounds, contradictory sample lists.
#[allow(unused_imports)]
use super::*;
use crate::verif_kani::playback_tests;

/// `--project-individuals i`: the shape is 2 i + 1 where that fits and never wraps to a small shape
/// (complete: all usize values, one and two axes; the map/collect loop runs at most twice)
#[kani::proof]
#[kani::unwind(4)]
fn k_project_individuals_no_wrap() {
    let i: usize = kani::any();
    let j: usize = kani::any();
    let one = Project::Individuals(vec![i]).shape();
    assert!(one.0.len() == 1, "one axis per population");
    if i <= (usize::MAX - 1) / 2 {
        assert!(one.0[0] == 2 * i + 1, "shape = 2 * individuals + 1");
    } else {
        assert!(one.0[0] >= i, "an unrepresentable shape must not wrap to a smaller one");
    }
    let two = Project::Individuals(vec![i, j]).shape();
    assert!(two.0.len() == 2, "one axis per population");
    if j <= (usize::MAX - 1) / 2 {
        assert!(two.0[1] == 2 * j + 1, "shape = 2 * individuals + 1 (second axis)");
    } else {
        assert!(two.0[1] >= j, "an unrepresentable shape must not wrap to a smaller one (second axis)");
    }
    let s = Project::Shape(Shape(vec![i, j])).shape();
    assert!(s.0.len() == 2 && s.0[0] == i && s.0[1] == j, "--project-shape is taken as given");
    kani::cover!(i > usize::MAX / 2);
}

// A concrete two-entry `sample::Map::from_iter([("s1", A), ("s1", B)])` harness (contradictory sample list, fix 7da6308)
// was measured here and dropped: CBMC did not finish in 1200 s (IndexMap / SipHash), like every IndexMap harness before it.

playback_tests!("h_site_builder");
