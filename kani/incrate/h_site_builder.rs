#![allow(unsafe_code)]
//! compiled as a child module of core/src/input/site/reader/builder.rs (private `Project::shape` reachable)
//! K-sitebuilder (C17): option values at and beyond their bounds, contradictory sample lists.
#[allow(unused_imports)]
use super::*;
use crate::verif_kani::playback_tests;

/// `--project-individuals i`: the shape is 2 i + 1 where that fits and never wraps to a small shape
/// (complete: all usize values, one and two axes; the map/collect loop runs at most twice)
#[kani::proof]
#[kani::unwind(4)]
fn k_project_individuals_no_wrap() {
    let i: usize = kani::any();
    let j: usize = kani::any();
    let one = Project::Individuals(vec![i]).shape();
    assert!(one.0.len() == 1, "one axis per population");
    if i <= (usize::MAX - 1) / 2 {
        assert!(one.0[0] == 2 * i + 1, "shape = 2 * individuals + 1");
    } else {
        assert!(one.0[0] >= i, "an unrepresentable shape must not wrap to a smaller one");
    }
    let two = Project::Individuals(vec![i, j]).shape();
    assert!(two.0.len() == 2, "one axis per population");
    if j <= (usize::MAX - 1) / 2 {
        assert!(two.0[1] == 2 * j + 1, "shape = 2 * individuals + 1 (second axis)");
    } else {
        assert!(two.0[1] >= j, "an unrepresentable shape must not wrap to a smaller one (second axis)");
    }
    let s = Project::Shape(Shape(vec![i, j])).shape();
    assert!(s.0.len() == 2 && s.0[0] == i && s.0[1] == j, "--project-shape is taken as given");
    kani::cover!(i > usize::MAX / 2);
}

fn stub_random_state_new() -> std::hash::RandomState {
    unsafe { std::mem::transmute::<(u64, u64), std::hash::RandomState>((1, 2)) }
}

/// contradictory sample list (C17): every sample of population A is reassigned to B by a later entry.
/// `number_of_populations` and `shape` must agree (ids 0 and 1 both exist) and must not panic.
/// BOUNDED: one concrete list; hash seeds fixed (RandomState::new would call getrandom(2)).
#[kani::proof]
#[kani::unwind(12)]
#[kani::stub(std::hash::RandomState::new, stub_random_state_new)]
fn k_samplemap_contradictory_list() {
    let map = sample::Map::from_iter([
        ("s1", sample::Population::from(Some("A"))),
        ("s1", sample::Population::from(Some("B"))),
    ]);
    assert!(map.number_of_populations() == 2, "an emptied population keeps its id");
    let shape = map.shape();
    assert!(shape.0.len() == 2 && shape.0[0] == 1 && shape.0[1] == 3, "shape = 1 + 2 * samples per population id");
    kani::cover!(true);
}

playback_tests!("h_site_builder");
