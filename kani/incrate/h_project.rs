//! compiled as a child module of core/src/spectrum/project.rs (private items reachable)
#[allow(unused_imports)]
use super::*;
use crate::verif_kani::playback_tests;

/// a PartialProjection whose scratch buffer holds arbitrary left-over values (C11: no leak)
pub(crate) fn partial_with_dirty_buffer(project_to: Count, to_buf: Count) -> PartialProjection {
    // through the constructor, then only the scratch buffer is overwritten (robust against added private fields)
    let mut p = PartialProjection::new(project_to);
    p.to_buf = to_buf;
    p
}

/// stub for utils::hypergeometric_pmf: an injective encoding of its arguments (all < 16), so that
/// argument order, axis pairing and evaluation order are observable.  The real function is
/// floating point through exp/ln and out of CBMC's reach; its *values* are not decided here.
pub(crate) fn pmf_stub(size: u64, successes: u64, draws: u64, observed: u64) -> f64 {
    (1 + observed + 16 * draws + 256 * successes + 4096 * size) as f64
}

/// the values a `Projected` would add to a zero spectrum of shape project_to+1, collected in order
pub(crate) fn collect_projected(p: Projected<'_>, n: usize) -> Vec<f64> {
    let mut scs = Scs::from_zeros(Shape(vec![n]));
    p.add_unchecked(&mut scs);
    scs.inner().as_slice().to_vec()
}


// ------------------------------------------------------------------------------------------------
// K-proj (C02, C03): validation of projection targets (complete over usize for 2 axes) and the
// wiring of `Spectrum::project` with the pmf replaced by an argument-encoding stub (bounded shapes).
use crate::array::Shape as Shp;

#[kani::proof]
#[kani::unwind(6)]
fn k_proj_validation_2d() {
    let from: [usize; 2] = kani::any();
    let to: [usize; 2] = kani::any();
    let r = Projection::new(Count(from.to_vec()), Count(to.to_vec()));
    if from[0] < to[0] {
        assert!(matches!(r, Err(ProjectionError::InvalidProjection { dimension: 0, from: f, to: t }) if f == from[0] && t == to[0]), "larger target in dimension 0 is rejected, naming it");
    } else if from[1] < to[1] {
        assert!(matches!(r, Err(ProjectionError::InvalidProjection { dimension: 1, from: f, to: t }) if f == from[1] && t == to[1]), "larger target in dimension 1 is rejected, naming it");
    } else {
        assert!(r.is_ok(), "targets not larger than the source are accepted");
    }
    kani::cover!(from[0] >= to[0] && from[1] < to[1]);
    kani::cover!(from[0] == to[0] && from[1] == to[1]);
}

#[kani::proof]
#[kani::unwind(6)]
fn k_proj_validation_dimensions() {
    let a: usize = kani::any();
    let b: usize = kani::any();
    let c: usize = kani::any();
    assert!(matches!(Projection::new(Count(vec![a, b]), Count(vec![c])), Err(ProjectionError::UnequalDimensions { from: 2, to: 1 })), "different dimensionality is rejected (2 -> 1)");
    assert!(matches!(Projection::new(Count(vec![a]), Count(vec![b, c])), Err(ProjectionError::UnequalDimensions { from: 1, to: 2 })), "different dimensionality is rejected (1 -> 2)");
    // shapes containing a zero length are rejected; others map to counts shape-1
    let s: [usize; 2] = kani::any();
    let t: [usize; 2] = kani::any();
    let r = Projection::from_shapes(Shp(s.to_vec()), Shp(t.to_vec()));
    if s[0] == 0 || s[1] == 0 || t[0] == 0 || t[1] == 0 {
        assert!(matches!(r, Err(ProjectionError::Zero)), "zero-length source or target axis is rejected");
    } else if s[0] < t[0] || s[1] < t[1] {
        assert!(matches!(r, Err(ProjectionError::InvalidProjection { .. })), "larger target shape is rejected");
    } else {
        assert!(r.is_ok(), "admissible target shape is accepted");
    }
    match Count::try_from_shape(Shp(s.to_vec())) {
        Some(cn) => assert!(s[0] >= 1 && s[1] >= 1 && cn[0] == s[0] - 1 && cn[1] == s[1] - 1, "count = shape - 1"),
        None => assert!(s[0] == 0 || s[1] == 0, "None only for a zero length"),
    }
    kani::cover!(s[0] == 0);
    kani::cover!(s[0] >= t[0] && s[1] >= t[1] && t[0] > 0 && t[1] > 0 && s[0] > 0 && s[1] > 0);
}

fn check_project_wiring<const D: usize>(from: [usize; D], to: [usize; D]) {
    use crate::verif_kani::util::product;
    let n = product(&from);
    let m = product(&to);
    let mut data = Vec::with_capacity(n);
    let mut p = 0;
    while p < n {
        data.push((p + 1) as f64);
        p += 1;
    }
    let scs = Scs::new(data.clone(), Shp(from.to_vec())).unwrap();
    let out = scs.project(Shp(to.to_vec())).unwrap();
    let mut j = 0;
    while j < D {
        assert!(out.shape()[j] == to[j], "projected spectrum has the target shape");
        j += 1;
    }
    assert!(out.dimensions() == D, "projected spectrum has the target number of axes");
    let mut q = 0;
    while q < m {
        // target multi-index of q
        let mut kq = [0usize; D];
        let mut r = q;
        let mut j = D;
        while j > 0 {
            j -= 1;
            kq[j] = r % to[j];
            r /= to[j];
        }
        let mut expect = 0.0f64;
        let mut p = 0;
        while p < n {
            let mut kp = [0usize; D];
            let mut r = p;
            let mut j = D;
            while j > 0 {
                j -= 1;
                kp[j] = r % from[j];
                r /= from[j];
            }
            let mut w = 1.0f64;
            let mut j = 0;
            while j < D {
                // Hypergeom(k'_j; n_j, k_j, m_j) with n_j = from_j - 1 chromosomes, m_j = to_j - 1
                w *= pmf_stub((from[j] - 1) as u64, kp[j] as u64, (to[j] - 1) as u64, kq[j] as u64);
                j += 1;
            }
            expect += w * data[p];
            p += 1;
        }
        assert!(out.inner().as_slice()[q] == expect, "new[k'] = sum_k x[k] * prod_j pmf(n_j, k_j, m_j, k'_j)");
        q += 1;
    }
    kani::cover!(true);
}

#[kani::proof]
#[kani::unwind(16)]
#[kani::stub(crate::utils::hypergeometric_pmf, pmf_stub)]
fn k_proj_wiring_4_to_3() {
    check_project_wiring([4], [3]);
}

#[kani::proof]
#[kani::unwind(16)]
#[kani::stub(crate::utils::hypergeometric_pmf, pmf_stub)]
fn k_proj_wiring_3x2_to_2x2() {
    check_project_wiring([3, 2], [2, 2]);
}

playback_tests!("h_project");
