//! K-view (C19, C04): axis views of real arrays, end to end:
//! `Array::get_axis` / `iter_axis` / `View::iter` / `Array::sum` against the definition
//! "elements whose a-th index is i, in row-major order of the remaining axes".
//! BOUNDED in shape (one concrete shape per harness); every axis (including the first out-of-range
//! one), every position (including one past the end) and call histories continued 4 calls past
//! exhaustion are enumerated for that shape.
//! Also discharges, for these shapes, the contract that the Verus unit V-view *assumes*
//! for `RemovedAxis<Shape>::elements` (= product of the remaining lengths).
use crate::array::{Array, Axis, Shape};

use super::util::*;

/// brute-force oracle: k-th element (row-major over the remaining axes) of the view (axis a, position i)
/// of the iota array = flat position of the full index
fn expected_view_elem<const D: usize>(shape: &[usize; D], a: usize, i: usize, k: usize) -> usize {
    // unflatten k over the shape without axis a, then insert i at a
    let mut idx = [0usize; D];
    let mut rem = k;
    let mut j = D;
    while j > 0 {
        j -= 1;
        if j == a {
            idx[j] = i;
        } else {
            idx[j] = rem % shape[j];
            rem /= shape[j];
        }
    }
    flat_of(shape, &idx)
}

fn check_axis_views<const D: usize>(shape: [usize; D]) {
    let n = product(&shape);
    let arr = Array::from_iter(0..n, Shape(shape.to_vec())).unwrap();
    // every axis 0..=D (D is out of range) and every position 0..=len (len is out of range)
    let mut a = 0;
    while a <= D {
        let len = if a < D { shape[a] } else { 1 };
        let mut i = 0;
        while i <= len {
            let view = arr.get_axis(Axis(a), i);
            if a >= D || i >= shape[a] {
                assert!(view.is_none(), "out-of-range axis or position gives None");
            } else {
                let view = view.unwrap();
                assert!(view.dimensions() == D - 1, "view has one axis less");
                let m = n / shape[a];
                let mut it = view.iter();
                let mut k = 0;
                while k < m {
                    assert!(it.len() == m - k, "view iterator reports the number of items it will still yield");
                    let x = it.next();
                    assert!(x.is_some(), "view iterator yields product(remaining lengths) items");
                    assert!(*x.unwrap() == expected_view_elem(&shape, a, i, k), "k-th item is the element at (a-th index = i), row-major over the rest");
                    k += 1;
                }
                // None forever, remaining length stays 0
                let mut e = 0;
                while e < 4 {
                    assert!(it.len() == 0, "remaining length 0 after the last item");
                    assert!(it.next().is_none(), "None forever after exhaustion");
                    e += 1;
                }
            }
            i += 1;
        }
        a += 1;
    }
    // axis far out of range
    assert!(arr.get_axis(Axis(usize::MAX), 0).is_none(), "axis usize::MAX gives None");
    assert!(arr.get_axis(Axis(0), usize::MAX).is_none(), "position usize::MAX gives None");
    kani::cover!(true);
}

fn check_axis_iter<const D: usize>(shape: [usize; D]) {
    let n = product(&shape);
    let arr = Array::from_iter(0..n, Shape(shape.to_vec())).unwrap();
    let mut a = 0;
    while a < D {
        let mut it = arr.iter_axis(Axis(a));
        let mut i = 0;
        while i < shape[a] {
            assert!(it.len() == shape[a] - i, "axis iterator reports remaining positions");
            let v = it.next();
            assert!(v.is_some(), "axis iterator yields one view per position");
            let v = v.unwrap();
            let first = v.iter().next();
            assert!(*first.unwrap() == expected_view_elem(&shape, a, i, 0), "i-th view starts at position i of the axis");
            i += 1;
        }
        assert!(it.len() == 0, "axis iterator: remaining 0 at the end");
        assert!(it.next().is_none(), "axis iterator: None after the last position");
        assert!(it.next().is_none(), "axis iterator: None forever");
        assert!(it.len() == 0, "axis iterator: remaining stays 0");
        a += 1;
    }
    // out-of-range axis: no views, remaining length 0, no panic
    let mut it = arr.iter_axis(Axis(D));
    assert!(it.len() == 0, "axis iterator on an out-of-range axis has length 0");
    assert!(it.next().is_none(), "axis iterator on an out-of-range axis yields nothing");
    kani::cover!(true);
}

/// Array::sum(axis) = adding the axis views (concrete integer-valued cells, see below)
#[allow(dead_code)]
fn check_sum<const D: usize>(shape: [usize; D]) {
    let n = product(&shape);
    // concrete integer-valued cells (exact f64 sums).  Checked per axis: number and order of the remaining
    // axes, element count, total mass and the first and last entry.  (Checking every entry against a
    // brute-force sum made CBMC exceed 12 GB; the per-entry check is done by the K-marg harnesses.)
    let mut data = Vec::with_capacity(n);
    let mut p = 0;
    let mut total = 0.0;
    while p < n {
        let v = (p * p + 1) as f64;
        data.push(v);
        total += v;
        p += 1;
    }
    let arr = Array::new(data, Shape(shape.to_vec())).unwrap();
    let mut a = 0;
    while a < D {
        let s = arr.sum(Axis(a));
        assert!(s.dimensions() == D - 1, "sum removes one axis");
        let m = n / shape[a];
        assert!(s.elements() == m, "sum has product(remaining lengths) elements");
        let mut j = 0;
        while j + 1 < D {
            let orig = if j < a { j } else { j + 1 };
            assert!(s.shape()[j] == shape[orig], "remaining axes keep their order and lengths");
            j += 1;
        }
        let mut mass = 0.0;
        let mut k = 0;
        while k < m {
            mass += s.as_slice()[k];
            k += 1;
        }
        assert!(mass == total, "summing along an axis preserves the total");
        let mut first = 0.0;
        let mut last = 0.0;
        let mut i = 0;
        while i < shape[a] {
            first += arr.as_slice()[expected_view_elem(&shape, a, i, 0)];
            last += arr.as_slice()[expected_view_elem(&shape, a, i, m - 1)];
            i += 1;
        }
        assert!(s.as_slice()[0] == first && s.as_slice()[m - 1] == last, "first and last entry are the sums over the removed axis");
        a += 1;
    }
    kani::cover!(true);
}

macro_rules! on_shape {
    ($name:ident, $unw:literal, $call:expr) => {
        #[kani::proof]
        #[kani::unwind($unw)]
        fn $name() {
            $call;
        }
    };
}

on_shape!(k_view_axis_views_3, 8, check_axis_views([3]));
on_shape!(k_view_axis_views_2x3, 9, check_axis_views([2, 3]));
on_shape!(k_view_axis_views_2x1, 8, check_axis_views([2, 1]));
on_shape!(k_view_axis_views_2x3x2, 15, check_axis_views([2, 3, 2]));
on_shape!(k_view_axis_views_3x1x2, 9, check_axis_views([3, 1, 2]));
on_shape!(k_view_axis_views_2x1x2x3, 15, check_axis_views([2, 1, 2, 3]));

on_shape!(k_view_axis_iter_2x3x2, 15, check_axis_iter([2, 3, 2]));
on_shape!(k_view_axis_iter_4, 8, check_axis_iter([4]));


playback_tests!("view");
