//! K-index (C19): flat position <-> multi-index bijection, strides, get/get_mut,
//! iter_indices -- on real `Array` / `Shape` / `Strides` values.
//! BOUNDED in shape: each harness fixes one concrete shape (listed at the bottom and in
//! lib/registry.py); indices, positions and lengths of index vectors are symbolic over
//! their full domain.
use crate::array::{Array, Axis, Shape};

use super::util::*;

fn check_shape_basics<const D: usize>(shape: [usize; D]) {
    let sh = Shape(shape.to_vec());
    let n = product(&shape);
    assert!(sh.elements() == n, "elements is the product of the lengths");
    // strides are suffix products
    let strides = sh.strides();
    assert!(strides.len() == D, "one stride per axis");
    let mut j = 0;
    while j < D {
        assert!(strides[j] == product(&shape[j + 1..]), "stride = product of the later lengths");
        j += 1;
    }
    // an arbitrary index vector of the right length: Some iff in range, and then the row-major position
    let idx: [usize; D] = kani::any();
    let mut in_range = true;
    let mut k = 0;
    while k < D {
        in_range = in_range && idx[k] < shape[k];
        k += 1;
    }
    let fi = strides.flat_index(&sh, &idx);
    if in_range {
        assert!(fi == Some(flat_of(&shape, &idx)), "flat_index is the row-major position");
        let p = fi.unwrap();
        assert!(p < n, "position in range");
        let back = sh.index_from_flat_unchecked(p);
        assert!(back.len() == D, "index has one entry per axis");
        let mut k = 0;
        while k < D {
            assert!(back[k] == idx[k], "index_from_flat inverts flat_index");
            k += 1;
        }
    } else {
        assert!(fi.is_none(), "out-of-range index gives None");
    }
    // conversely every flat position maps to an in-range index that maps back
    let p: usize = kani::any();
    kani::assume(p < n);
    let back = sh.index_from_flat_unchecked(p);
    assert!(back.len() == D, "index has one entry per axis (2)");
    assert!(strides.flat_index(&sh, &back) == Some(p), "flat_index inverts index_from_flat");
    kani::cover!(in_range);
    kani::cover!(!in_range);
}

/// get / get_mut / Index: wrong-length and out-of-range indices give None, in-range gives the element.
/// L = length of the index vector handed in (D-1, D or D+1)
fn check_get<const D: usize, const L: usize>(shape: [usize; D]) {
    let n = product(&shape);
    let mut a = Array::from_iter(0..n, Shape(shape.to_vec())).unwrap();
    let idx: [usize; L] = kani::any();
    let mut in_range = L == D;
    let mut k = 0;
    while k < L && k < D {
        in_range = in_range && idx[k] < shape[k];
        k += 1;
    }
    let got = a.get(&idx).copied();
    if in_range {
        assert!(got == Some(flat_of(&shape, &idx)), "get returns the element at the row-major position");
    } else {
        assert!(got.is_none(), "wrong-length or out-of-range index gives None");
    }
    let gm = a.get_mut(&idx).map(|x| *x);
    assert!(gm == got, "get_mut agrees with get");
    kani::cover!(in_range || L != D);
    kani::cover!(!in_range);
}

/// iter_indices yields unflatten(0), unflatten(1), ... once, reports exact remaining length, then None forever
fn check_iter_indices<const D: usize>(shape: [usize; D]) {
    let n = product(&shape);
    let a = Array::from_iter(0..n, Shape(shape.to_vec())).unwrap();
    let mut it = a.iter_indices();
    let mut p = 0;
    while p < n {
        assert!(it.len() == n - p, "remaining length before each item");
        let idx = it.next();
        assert!(idx.is_some(), "yields exactly `elements` items");
        let idx = idx.unwrap();
        assert!(idx.len() == D, "index length");
        assert!(flat_of(&shape, &idx) == p, "p-th index has row-major position p");
        let mut k = 0;
        while k < D {
            assert!(idx[k] < shape[k], "index in range");
            k += 1;
        }
        assert!(a[&idx] == p, "indexing by it returns the element at that position");
        p += 1;
    }
    assert!(it.len() == 0, "remaining length 0 at the end");
    assert!(it.next().is_none(), "None after the last item");
    assert!(it.next().is_none(), "None forever");
    assert!(it.len() == 0, "remaining length stays 0");
    kani::cover!(n > 1);
}

macro_rules! on_shape {
    ($name:ident, $unw:literal, $call:expr) => {
        #[kani::proof]
        #[kani::unwind($unw)]
        fn $name() {
            $call;
        }
    };
}

on_shape!(k_index_bijection_5, 7, check_shape_basics([5]));
on_shape!(k_index_bijection_1, 7, check_shape_basics([1]));
on_shape!(k_index_bijection_2x3, 7, check_shape_basics([2, 3]));
on_shape!(k_index_bijection_1x2x2, 7, check_shape_basics([1, 2, 2]));
on_shape!(k_index_bijection_3x1, 7, check_shape_basics([3, 1]));
on_shape!(k_index_bijection_2x3x2, 7, check_shape_basics([2, 3, 2]));
on_shape!(k_index_bijection_3x1x4, 7, check_shape_basics([3, 1, 4]));
on_shape!(k_index_bijection_2x1x2x3, 7, check_shape_basics([2, 1, 2, 3]));
on_shape!(k_index_bijection_5x4x9x2, 7, check_shape_basics([5, 4, 9, 2]));
on_shape!(k_index_bijection_2x2x2x2x2, 7, check_shape_basics([2, 2, 2, 2, 2]));

on_shape!(k_index_get_4, 7, check_get::<1, 1>([4]));
on_shape!(k_index_get_4_len0, 7, check_get::<1, 0>([4]));
on_shape!(k_index_get_4_len2, 7, check_get::<1, 2>([4]));
on_shape!(k_index_get_2x3, 8, check_get::<2, 2>([2, 3]));
on_shape!(k_index_get_2x3_len1, 8, check_get::<2, 1>([2, 3]));
on_shape!(k_index_get_2x3_len3, 8, check_get::<2, 3>([2, 3]));
on_shape!(k_index_get_2x1x3, 8, check_get::<3, 3>([2, 1, 3]));
on_shape!(k_index_get_2x2x2x2, 18, check_get::<4, 4>([2, 2, 2, 2]));

on_shape!(k_index_iter_indices_4, 7, check_iter_indices([4]));
on_shape!(k_index_iter_indices_2x3, 8, check_iter_indices([2, 3]));
on_shape!(k_index_iter_indices_1x3, 8, check_iter_indices([1, 3]));
on_shape!(k_index_iter_indices_1x1x2, 8, check_iter_indices([1, 1, 2]));
on_shape!(k_index_iter_indices_3x1x2, 8, check_iter_indices([3, 1, 2]));
on_shape!(k_index_iter_indices_2x2x1x2, 10, check_iter_indices([2, 2, 1, 2]));

/// C16 / C17: a declared shape whose element count does not fit a usize is rejected (not wrapped around,
/// not a panic): with no data, `Array::new` accepts a two-axis shape exactly when one length is 0.
/// Complete over all pairs of usize lengths.
#[kani::proof]
#[kani::unwind(6)]
fn k_index_new_absurd_shape() {
    let a: usize = kani::any();
    let b: usize = kani::any();
    let r = Array::<u8>::new(Vec::new(), Shape(vec![a, b]));
    assert!(r.is_ok() == (a == 0 || b == 0), "an empty data vector fits a shape iff its true element count is 0");
    let one = Array::<u8>::new(vec![7u8], Shape(vec![a, b]));
    assert!(one.is_ok() == (a == 1 && b == 1), "one value fits only the shape [1, 1]");
    kani::cover!(a > 1 << 40 && b > 1 << 40);
    kani::cover!(a == 0);
}

playback_tests!("index");
