#![allow(unsafe_code, static_mut_refs)]
//! K-site (C01, C02, C08, C09, C11): `site::Reader::read_site` with
//!   * an in-memory genotype reader (3 input columns),
//!   * `sample::Map` lookups STUBBED by their contract (a consistent, arbitrary column -> population
//!     table: IndexMap/SipHash over Strings is out of CBMC's reach, see DESIGN.md section 2),
//!   * an ARBITRARY pre-state of every reused accumulator (counts, totals, skipped list, projection
//!     scratch buffer), so that the postcondition -- which mentions the current record only --
//!     holds after every history (C11).
//! BOUNDED: 3 input columns, 2 populations.  Complete in: the column -> population table (including
//! unselected columns), every genotype::Result per column (including Error), projection targets.
#[allow(unused_imports)]
use super::*;
use crate::input::genotype::{Genotype, Skipped};
use crate::input::sample::{self as smp, population};
use crate::spectrum::project::verif_kani::{collect_projected, partial_with_dirty_buffer, pmf_stub};
use crate::verif_kani::playback_tests;

const COLS: usize = 3;
const POPS: usize = 2;

/// column c of the input belongs to population TABLE[c] (None: sample not selected)
static mut TABLE: [Option<usize>; COLS] = [None; COLS];

fn column_of(sample: &Sample) -> usize {
    // harness sample names are "0", "1", "2"
    (sample.as_ref().as_bytes()[0] - b'0') as usize
}

#[allow(static_mut_refs)]
fn stub_get_population_id(_m: &smp::Map, sample: &Sample) -> Option<population::Id> {
    unsafe { TABLE[column_of(sample)].map(population::Id) }
}

#[allow(static_mut_refs)]
fn stub_get_sample_id(_m: &smp::Map, sample: &Sample) -> Option<smp::Id> {
    // id of a selected sample = its rank among the selected columns (any injective choice would do)
    unsafe { TABLE[column_of(sample)].map(|_| smp::Id(column_of(sample))) }
}

/// `sample::Map::default()` would seed a RandomState through getrandom(2), which CBMC cannot execute.
/// The map is never consulted (both lookups are stubbed), so fixed SipHash keys are used instead.
fn stub_random_state_new() -> std::hash::RandomState {
    unsafe { std::mem::transmute::<(u64, u64), std::hash::RandomState>((1, 2)) }
}

struct MemReader {
    samples: Vec<Sample>,
    record: Option<Vec<genotype::Result>>,
}

impl genotype::Reader for MemReader {
    fn current_contig(&self) -> &str {
        "c"
    }
    fn current_position(&self) -> usize {
        1
    }
    fn read_genotypes(&mut self) -> ReadStatus<Vec<genotype::Result>> {
        match self.record.take() {
            Some(r) => ReadStatus::Read(r),
            None => ReadStatus::Done,
        }
    }
    fn samples(&self) -> &[Sample] {
        &self.samples
    }
}

fn any_result_no_error() -> genotype::Result {
    let k: u8 = kani::any();
    kani::assume(k < 5);
    match k {
        0 => genotype::Result::Genotype(Genotype::Zero),
        1 => genotype::Result::Genotype(Genotype::One),
        2 => genotype::Result::Genotype(Genotype::Two),
        3 => genotype::Result::Skipped(Skipped::Missing),
        _ => genotype::Result::Skipped(Skipped::Multiallelic),
    }
}

fn any_result() -> genotype::Result {
    match kani::any::<u8>() % 6 {
        0 => genotype::Result::Genotype(Genotype::Zero),
        1 => genotype::Result::Genotype(Genotype::One),
        2 => genotype::Result::Genotype(Genotype::Two),
        3 => genotype::Result::Skipped(Skipped::Missing),
        4 => genotype::Result::Skipped(Skipped::Multiallelic),
        _ => genotype::Result::Error(genotype::Error::PloidyError),
    }
}

fn any_small() -> usize {
    let x: usize = kani::any();
    kani::assume(x <= 9);
    x
}

#[allow(static_mut_refs)]
fn setup_with(table: [Option<usize>; COLS], results: [genotype::Result; COLS], projection: Option<PartialProjection>, stale_skipped: bool) -> Reader {
    unsafe {
        TABLE = table;
    }
    let mem = MemReader {
        samples: vec![Sample::from("0"), Sample::from("1"), Sample::from("2")],
        record: Some(results.to_vec()),
    };
    // left-overs of an earlier record (C11): non-zero counts and totals and one stale skipped entry.
    // (Concrete garbage: symbolic garbage multiplies the solver time by more than 10 and a missed
    // reset is just as visible with these values.)
    // two kinds of reachable pre-state: after a record with a skipped sample (stale entry in the list) and
    // after a complete record (empty list, totals still holding that record's chromosomes)
    let skipped = if stale_skipped { vec![(smp::Id(1), Skipped::Missing)] } else { Vec::new() };
    Reader {
        reader: Box::new(mem),
        sample_map: smp::Map::default(),
        counts: Count(vec![7, 5]),
        totals: Count(vec![3, 9]),
        projection,
        skipped_samples: skipped,
    }
}

fn setup(table: [Option<usize>; COLS], results: [genotype::Result; COLS], projection: Option<PartialProjection>) -> Reader {
    setup_with(table, results, projection, true)
}

/// oracle, from the statements of C01/C02/C08: per population ALT count and called chromosomes
/// over the *selected* columns of the current record
#[allow(static_mut_refs)]
fn oracle(results: &[genotype::Result; COLS]) -> (bool, bool, [usize; POPS], [usize; POPS], usize) {
    let table = unsafe { TABLE };
    let mut error = false;
    let mut any_skipped = false;
    let mut counts = [0usize; POPS];
    let mut totals = [0usize; POPS];
    let mut n_skipped = 0;
    for c in 0..COLS {
        if let Some(p) = table[c] {
            match results[c] {
                genotype::Result::Genotype(g) => {
                    counts[p] += match g {
                        Genotype::Zero => 0,
                        Genotype::One => 1,
                        Genotype::Two => 2,
                    };
                    totals[p] += 2;
                }
                genotype::Result::Skipped(_) => {
                    any_skipped = true;
                    n_skipped += 1;
                }
                genotype::Result::Error(_) => error = true,
            }
        }
    }
    (error, any_skipped, counts, totals, n_skipped)
}

const G0: genotype::Result = genotype::Result::Genotype(Genotype::Zero);
const G1: genotype::Result = genotype::Result::Genotype(Genotype::One);
const G2: genotype::Result = genotype::Result::Genotype(Genotype::Two);
const MI: genotype::Result = genotype::Result::Skipped(Skipped::Missing);
const MU: genotype::Result = genotype::Result::Skipped(Skipped::Multiallelic);
const ER: genotype::Result = genotype::Result::Error(genotype::Error::PloidyError);
const A: Option<usize> = Some(0);
const B: Option<usize> = Some(1);
const N: Option<usize> = None;

/// One column (`symcol`) takes every genotype::Result, the others are fixed: symbolic results in two
/// or more columns at once did not finish in 300 s (each symbolic skip doubles the Vec::push/realloc
/// states CBMC has to track), so the product is covered by a family of harnesses instead.
fn check_no_projection(table: [Option<usize>; COLS], mut results: [genotype::Result; COLS], symcol: usize) {
    results[symcol] = any_result();
    // alternate the two kinds of pre-state over the family
    let mut reader = setup_with(table, results, None, symcol != 1);
    let (error, any_skipped, counts, _totals, n_skipped) = oracle(&results);
    match reader.read_site() {
        ReadStatus::Error(_) => assert!(error, "Error only if a selected column has a ploidy error"),
        ReadStatus::Done => assert!(false, "a record was supplied"),
        ReadStatus::Read(site) => {
            assert!(!error, "a ploidy error in a selected column aborts the record");
            match site {
                Site::Standard(c) => {
                    assert!(!any_skipped, "a record with a missing/multiallelic selected sample contributes nothing");
                    assert!(c.len() == POPS && c[0] == counts[0] && c[1] == counts[1], "count index = ALT alleles per population over the selected samples of this record");
                }
                Site::InsufficientData => assert!(any_skipped, "complete records are counted"),
                Site::Projected(_) => assert!(false, "no projection requested"),
            }
        }
    }
    if !error {
        assert!(reader.skipped_samples.len() == n_skipped, "skipped list describes the current record only");
    }
    kani::cover!(true);
    std::mem::forget(reader);
}

/// decision part (C02): which of Standard / Projected / InsufficientData a record gets, for a fixed
/// target `to`, with one column taking every result and a dirty pre-state
fn check_projection_decision(table: [Option<usize>; COLS], mut results: [genotype::Result; COLS], symcol: usize, to: [usize; POPS], stale_skipped: bool) {
    results[symcol] = any_result();
    let proj = partial_with_dirty_buffer(Count(vec![to[0], to[1]]), Count(vec![1, 2]));
    let mut reader = setup_with(table, results, Some(proj), stale_skipped);
    let (error, _any_skipped, counts, totals, _n) = oracle(&results);
    let exact = totals[0] == to[0] && totals[1] == to[1];
    let projectable = totals[0] >= to[0] && totals[1] >= to[1];
    match reader.read_site() {
        ReadStatus::Error(_) => assert!(error, "Error only if a selected column has a ploidy error"),
        ReadStatus::Done => assert!(false, "a record was supplied"),
        ReadStatus::Read(site) => {
            assert!(!error, "a ploidy error in a selected column aborts the record");
            match site {
                Site::Standard(c) => {
                    assert!(exact, "Standard only when every population has exactly the target number of called chromosomes");
                    assert!(c[0] == counts[0] && c[1] == counts[1], "count index of an exactly covered record");
                }
                Site::InsufficientData => assert!(!projectable, "records with t_j >= m_j for every j are used"),
                Site::Projected(_) => assert!(projectable && !exact, "Projected only when covered but not exactly"),
            }
        }
    }
    kani::cover!(true);
}

/// wiring part (C02, C11): concrete record, scratch buffer dirty from an earlier record; every
/// projected value is the product over populations of pmf(t_j, a_j, m_j, k_j), in row-major order
fn check_projection_values(table: [Option<usize>; COLS], results: [genotype::Result; COLS], to: [usize; POPS], dirty: [usize; POPS]) {
    let proj = partial_with_dirty_buffer(Count(vec![to[0], to[1]]), Count(vec![dirty[0], dirty[1]]));
    let mut reader = setup(table, results, Some(proj));
    let (_error, _any_skipped, counts, totals, _n) = oracle(&results);
    match reader.read_site() {
        ReadStatus::Read(Site::Projected(p)) => {
            let n = (to[0] + 1) * (to[1] + 1);
            let vals = collect_projected(p, n);
            let mut k = 0;
            while k < n {
                let k0 = k / (to[1] + 1);
                let k1 = k % (to[1] + 1);
                let expect = 1.0
                    * pmf_stub(totals[0] as u64, counts[0] as u64, to[0] as u64, k0 as u64)
                    * pmf_stub(totals[1] as u64, counts[1] as u64, to[1] as u64, k1 as u64);
                assert!(vals[k] == expect, "projected value k is the product of per-population pmf(t_j, a_j, m_j, k_j), row-major");
                k += 1;
            }
        }
        _ => assert!(false, "this record is covered but not exactly: it must be projected"),
    }
    kani::cover!(true);
}

macro_rules! site_harness {
    ($name:ident, $f:ident, $table:expr, $results:expr, $symcol:expr) => {
        #[kani::proof]
        #[kani::unwind(12)]
        #[kani::stub(smp::Map::get_population_id, stub_get_population_id)]
        #[kani::stub(smp::Map::get_sample_id, stub_get_sample_id)]
        #[kani::stub(crate::utils::hypergeometric_pmf, pmf_stub)]
        #[kani::stub(std::hash::RandomState::new, stub_random_state_new)]
        fn $name() {
            $f($table, $results, $symcol);
        }
    };
}

// column -> population tables (A, B: populations 0, 1; N: sample not selected); fixed results of the
// other columns; index of the column that takes every result
site_harness!(k_site_noproj_abn_c0, check_no_projection, [A, B, N], [G0, G2, ER], 0);
site_harness!(k_site_noproj_abn_c2, check_no_projection, [A, B, N], [G1, G2, G0], 2);
site_harness!(k_site_noproj_aab_c1, check_no_projection, [A, A, B], [G2, G0, G1], 1);
site_harness!(k_site_noproj_aab_c2, check_no_projection, [A, A, B], [G1, MI, G0], 2);
site_harness!(k_site_noproj_baa_c0, check_no_projection, [B, A, A], [G0, G2, G2], 0);
site_harness!(k_site_noproj_nba_c1, check_no_projection, [N, B, A], [MU, G0, G1], 1);

macro_rules! site_proj_harness {
    ($name:ident, $call:expr) => {
        #[kani::proof]
        #[kani::unwind(12)]
        #[kani::stub(smp::Map::get_population_id, stub_get_population_id)]
        #[kani::stub(smp::Map::get_sample_id, stub_get_sample_id)]
        #[kani::stub(crate::utils::hypergeometric_pmf, pmf_stub)]
        #[kani::stub(std::hash::RandomState::new, stub_random_state_new)]
        fn $name() {
            $call;
        }
    };
}

site_proj_harness!(k_site_projdec_aab_c0_to22, check_projection_decision([A, A, B], [G0, G2, G1], 0, [2, 2], true));
site_proj_harness!(k_site_projdec_aab_c2_to42, check_projection_decision([A, A, B], [G1, G0, G0], 2, [4, 2], false));
site_proj_harness!(k_site_projdec_aab_c1_to20, check_projection_decision([A, A, B], [G1, G0, MI], 1, [2, 0], true));
site_proj_harness!(k_site_projdec_baa_c1_to02, check_projection_decision([B, A, A], [G2, G0, MU], 1, [0, 2], true));
site_proj_harness!(k_site_projdec_nba_c0_to22, check_projection_decision([N, B, A], [ER, G1, G2], 0, [2, 2], false));
site_proj_harness!(k_site_projval_aab_to21, check_projection_values([A, A, B], [G1, G2, G0], [2, 1], [3, 1]));
site_proj_harness!(k_site_projval_baa_to12, check_projection_values([B, A, A], [G2, G1, G1], [1, 2], [0, 2]));
site_proj_harness!(k_site_projval_aab_to02, check_projection_values([A, A, B], [MI, G1, G2], [0, 2], [1, 1]));

playback_tests!("h_site_reader");
