#![allow(unsafe_code, static_mut_refs)]
//! K-site (C01, C02, C08, C09, C11): `site::Reader::read_site` with
//!   * an in-memory genotype reader (3 input columns),
//!   * `sample::Map` lookups STUBBED by their contract (a consistent, arbitrary column -> population
//!     table: IndexMap/SipHash over Strings is out of CBMC's reach, see DESIGN.md section 2),
//!   * an ARBITRARY pre-state of every reused accumulator (counts, totals, skipped list, projection
//!     scratch buffer), so that the postcondition -- which mentions the current record only --
//!     holds after every history (C11).
//! BOUNDED: 3 input columns, 2 populations.  Complete in: the column -> population table (including
//! unselected columns), every genotype::Result per column (including Error), projection targets.
#[allow(unused_imports)]
use super::*;
use crate::input::genotype::{Genotype, Skipped};
use crate::input::sample::{self as smp, population};
use crate::spectrum::project::verif_kani::{collect_projected, partial_with_dirty_buffer, pmf_stub};
use crate::verif_kani::playback_tests;

const COLS: usize = 3;
const POPS: usize = 2;

/// column c of the input belongs to population TABLE[c] (None: sample not selected)
static mut TABLE: [Option<usize>; COLS] = [None; COLS];

fn column_of(sample: &Sample) -> usize {
    // harness sample names are "0", "1", "2"
    (sample.as_ref().as_bytes()[0] - b'0') as usize
}

#[allow(static_mut_refs)]
fn stub_get_population_id(_m: &smp::Map, sample: &Sample) -> Option<population::Id> {
    unsafe { TABLE[column_of(sample)].map(population::Id) }
}

#[allow(static_mut_refs)]
fn stub_get_sample_id(_m: &smp::Map, sample: &Sample) -> Option<smp::Id> {
    // id of a selected sample = its rank among the selected columns (any injective choice would do)
    unsafe { TABLE[column_of(sample)].map(|_| smp::Id(column_of(sample))) }
}

/// `sample::Map::default()` would seed a RandomState through getrandom(2), which CBMC cannot execute.
/// The map is never consulted (both lookups are stubbed), so fixed SipHash keys are used instead.
fn stub_random_state_new() -> std::hash::RandomState {
    unsafe { std::mem::transmute::<(u64, u64), std::hash::RandomState>((1, 2)) }
}

struct MemReader {
    samples: Vec<Sample>,
    record: Option<Vec<genotype::Result>>,
}

impl genotype::Reader for MemReader {
    fn current_contig(&self) -> &str {
        "c"
    }
    fn current_position(&self) -> usize {
        1
    }
    fn read_genotypes(&mut self) -> ReadStatus<Vec<genotype::Result>> {
        match self.record.take() {
            Some(r) => ReadStatus::Read(r),
            None => ReadStatus::Done,
        }
    }
    fn samples(&self) -> &[Sample] {
        &self.samples
    }
}

fn any_result() -> genotype::Result {
    match kani::any::<u8>() % 6 {
        0 => genotype::Result::Genotype(Genotype::Zero),
        1 => genotype::Result::Genotype(Genotype::One),
        2 => genotype::Result::Genotype(Genotype::Two),
        3 => genotype::Result::Skipped(Skipped::Missing),
        4 => genotype::Result::Skipped(Skipped::Multiallelic),
        _ => genotype::Result::Error(genotype::Error::PloidyError),
    }
}

fn any_small() -> usize {
    let x: usize = kani::any();
    kani::assume(x <= 9);
    x
}

#[allow(static_mut_refs)]
fn setup(projection: Option<PartialProjection>) -> (Reader, [genotype::Result; COLS]) {
    let mut table = [None; COLS];
    for c in 0..COLS {
        let sel: u8 = kani::any();
        table[c] = match sel % 3 {
            0 => None,
            1 => Some(0),
            _ => Some(1),
        };
    }
    unsafe {
        TABLE = table;
    }
    let results = [any_result(), any_result(), any_result()];
    let mem = MemReader {
        samples: vec![Sample::from("0"), Sample::from("1"), Sample::from("2")],
        record: Some(results.to_vec()),
    };
    // arbitrary left-overs of earlier records
    let mut skipped = Vec::new();
    if kani::any() {
        skipped.push((smp::Id(any_small()), Skipped::Missing));
    }
    let reader = Reader {
        reader: Box::new(mem),
        sample_map: smp::Map::default(),
        counts: Count(vec![any_small(), any_small()]),
        totals: Count(vec![any_small(), any_small()]),
        projection,
        skipped_samples: skipped,
    };
    (reader, results)
}

/// oracle, from the statements of C01/C02/C08: per population ALT count and called chromosomes
/// over the *selected* columns of the current record
#[allow(static_mut_refs)]
fn oracle(results: &[genotype::Result; COLS]) -> (bool, bool, [usize; POPS], [usize; POPS], usize) {
    let table = unsafe { TABLE };
    let mut error = false;
    let mut any_skipped = false;
    let mut counts = [0usize; POPS];
    let mut totals = [0usize; POPS];
    let mut n_skipped = 0;
    for c in 0..COLS {
        if let Some(p) = table[c] {
            match results[c] {
                genotype::Result::Genotype(g) => {
                    counts[p] += match g {
                        Genotype::Zero => 0,
                        Genotype::One => 1,
                        Genotype::Two => 2,
                    };
                    totals[p] += 2;
                }
                genotype::Result::Skipped(_) => {
                    any_skipped = true;
                    n_skipped += 1;
                }
                genotype::Result::Error(_) => error = true,
            }
        }
    }
    (error, any_skipped, counts, totals, n_skipped)
}

#[kani::proof]
#[kani::unwind(8)]
#[kani::stub(smp::Map::get_population_id, stub_get_population_id)]
#[kani::stub(smp::Map::get_sample_id, stub_get_sample_id)]
#[kani::stub(std::hash::RandomState::new, stub_random_state_new)]
fn k_site_read_site_no_projection() {
    let (mut reader, results) = setup(None);
    let (error, any_skipped, counts, _totals, n_skipped) = oracle(&results);
    let status = reader.read_site();
    match status {
        ReadStatus::Error(_) => assert!(error, "Error only if a selected column has a ploidy error"),
        ReadStatus::Done => assert!(false, "a record was supplied"),
        ReadStatus::Read(site) => {
            assert!(!error, "a ploidy error in a selected column aborts the record");
            match site {
                Site::Standard(c) => {
                    assert!(!any_skipped, "a record with a missing/multiallelic selected sample contributes nothing");
                    assert!(c.len() == POPS && c[0] == counts[0] && c[1] == counts[1], "count index = ALT alleles per population over the selected samples of this record");
                }
                Site::InsufficientData => assert!(any_skipped, "complete records are counted"),
                Site::Projected(_) => assert!(false, "no projection requested"),
            }
        }
    }
    if !error {
        assert!(reader.skipped_samples.len() == n_skipped, "skipped list describes the current record only");
    }
    kani::cover!(error);
    kani::cover!(!error && !any_skipped && counts[0] == 4);
    kani::cover!(!error && any_skipped);
}

#[kani::proof]
#[kani::unwind(8)]
#[kani::stub(smp::Map::get_population_id, stub_get_population_id)]
#[kani::stub(smp::Map::get_sample_id, stub_get_sample_id)]
#[kani::stub(crate::utils::hypergeometric_pmf, pmf_stub)]
#[kani::stub(std::hash::RandomState::new, stub_random_state_new)]
fn k_site_read_site_projection() {
    let to = [any_small(), any_small()];
    kani::assume(to[0] <= 6 && to[1] <= 6);
    // scratch buffer dirty from an earlier record
    let proj = partial_with_dirty_buffer(Count(vec![to[0], to[1]]), Count(vec![any_small(), any_small()]));
    let (mut reader, results) = setup(Some(proj));
    let (error, _any_skipped, counts, totals, _n) = oracle(&results);
    let exact = totals[0] == to[0] && totals[1] == to[1];
    let projectable = totals[0] >= to[0] && totals[1] >= to[1];
    let status = reader.read_site();
    match status {
        ReadStatus::Error(_) => assert!(error, "Error only if a selected column has a ploidy error"),
        ReadStatus::Done => assert!(false, "a record was supplied"),
        ReadStatus::Read(site) => {
            assert!(!error, "a ploidy error in a selected column aborts the record");
            match site {
                Site::Standard(c) => {
                    assert!(exact, "Standard only when every population has exactly the target number of called chromosomes");
                    assert!(c[0] == counts[0] && c[1] == counts[1], "count index of an exactly covered record");
                }
                Site::InsufficientData => assert!(!projectable, "records with t_j >= m_j for every j are used"),
                Site::Projected(p) => {
                    assert!(projectable && !exact, "Projected only when covered but not exactly");
                    // value k (row-major over (to0+1) x (to1+1)) = product over populations of pmf(t_j, a_j, m_j, k_j)
                    let n = (to[0] + 1) * (to[1] + 1);
                    let vals = collect_projected(p, n);
                    let k: usize = kani::any();
                    kani::assume(k < n);
                    let k0 = k / (to[1] + 1);
                    let k1 = k % (to[1] + 1);
                    let expect = 1.0
                        * pmf_stub(totals[0] as u64, counts[0] as u64, to[0] as u64, k0 as u64)
                        * pmf_stub(totals[1] as u64, counts[1] as u64, to[1] as u64, k1 as u64);
                    assert!(vals[k] == expect, "projected value k is the product of per-population pmf(t_j, a_j, m_j, k_j), row-major");
                }
            }
        }
    }
    kani::cover!(!error && exact);
    kani::cover!(!error && projectable && !exact);
    kani::cover!(!error && !projectable);
}

playback_tests!("h_site_reader");
