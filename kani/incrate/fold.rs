//! K-fold (C05): `Spectrum::fold` / `Folded::into_spectrum` on real spectra.
//! BOUNDED in shape (one concrete shape per harness, listed in lib/registry.py);
//! cell values are integer-valued and (but for one cancelling mirror pair and a zero diagonal cell)
//! distinct so that every pairing is observable and f64 arithmetic is exact (x + y and 0.5x + 0.5y of
//! small integers); the fill value is symbolic over all f64 bit patterns.
use crate::array::Shape;
use crate::spectrum::Scs;

use super::util::*;

fn same(a: f64, b: f64) -> bool {
    a.to_bits() == b.to_bits() || (a.is_nan() && b.is_nan())
}

fn check_fold<const D: usize>(shape: [usize; D]) {
    let n = product(&shape);
    let mut data = Vec::with_capacity(n);
    let mut p = 0;
    while p < n {
        data.push((3 * p * p + 2 * p + 1) as f64); // distinct, non-symmetric
        p += 1;
    }
    // a kept cell whose folded value is exactly 0 (cell 1 and its mirror cancel), a negative cell, and -- for an
    // odd number of cells -- a self-mirrored diagonal cell equal to 0: a folded 0 is a value, not a missing entry
    if n >= 4 {
        data[n - 2] = -data[1];
    }
    if n % 2 == 1 && n >= 3 {
        data[n / 2] = 0.0;
    }
    let scs = Scs::new(data.clone(), Shape(shape.to_vec())).unwrap();
    let fill = f64::from_bits(kani::any());
    let folded = scs.fold().into_spectrum(fill);
    let mut j = 0;
    while j < D {
        assert!(folded.shape()[j] == shape[j], "folding keeps the shape");
        j += 1;
    }
    // T = maximum total allele count
    let mut t = 0;
    let mut j = 0;
    while j < D {
        t += shape[j] - 1;
        j += 1;
    }
    let out = folded.inner().as_slice();
    let mut i = 0;
    while i < n {
        // s = total allele count of cell i, from the definition (sum of the multi-index)
        let mut s = 0;
        let mut rem = i;
        let mut j = D;
        while j > 0 {
            j -= 1;
            s += rem % shape[j];
            rem /= shape[j];
        }
        let mirror = n - 1 - i; // every index k_j replaced by n_j - 1 - k_j
        if 2 * s < t {
            assert!(out[i] == data[i] + data[mirror], "below the diagonal: entry plus its mirror entry");
        } else if 2 * s == t {
            assert!(out[i] == 0.5 * data[i] + 0.5 * data[mirror], "on the diagonal: average of the mirror pair");
        } else {
            assert!(same(out[i], fill), "above the diagonal: fill value");
        }
        i += 1;
    }
    // fold(fold(x)) = fold(x) with fill 0, and total mass is preserved (exact on these integer cells)
    let f0 = scs.fold().into_spectrum(0.0);
    let f00 = f0.fold().into_spectrum(0.0);
    let mut i = 0;
    let mut mass = 0.0;
    let mut mass0 = 0.0;
    while i < n {
        assert!(f00.inner().as_slice()[i] == f0.inner().as_slice()[i], "folding twice equals folding once (fill 0)");
        mass += data[i];
        mass0 += f0.inner().as_slice()[i];
        i += 1;
    }
    assert!(mass == mass0, "fill 0 preserves total mass");
    // mirrored input (REF/ALT swapped) folds to the same spectrum
    let mut mdata = Vec::with_capacity(n);
    let mut i = 0;
    while i < n {
        mdata.push(data[n - 1 - i]);
        i += 1;
    }
    let fm = Scs::new(mdata, Shape(shape.to_vec())).unwrap().fold().into_spectrum(0.0);
    let mut i = 0;
    while i < n {
        assert!(fm.inner().as_slice()[i] == f0.inner().as_slice()[i], "fold(mirror x) == fold(x)");
        i += 1;
    }
    kani::cover!(true);
}

macro_rules! on_shape {
    ($name:ident, $unw:literal, $call:expr) => {
        #[kani::proof]
        #[kani::unwind($unw)]
        fn $name() {
            $call;
        }
    };
}

/// folding an empty spectrum (zero-length axis) must not panic
#[kani::proof]
#[kani::unwind(8)]
fn k_fold_empty() {
    let scs = Scs::new(Vec::<f64>::new(), Shape(vec![0])).unwrap();
    let f = scs.fold().into_spectrum(0.0);
    assert!(f.elements() == 0, "folding an empty spectrum gives an empty spectrum");
    let scs = Scs::new(Vec::<f64>::new(), Shape(vec![2, 0])).unwrap();
    let f = scs.fold().into_spectrum(0.0);
    assert!(f.elements() == 0, "folding an empty 2-D spectrum gives an empty spectrum");
    kani::cover!(true);
}

on_shape!(k_fold_1, 8, check_fold([1]));
on_shape!(k_fold_4, 8, check_fold([4]));
on_shape!(k_fold_5, 8, check_fold([5]));
on_shape!(k_fold_2x4, 11, check_fold([2, 4]));
on_shape!(k_fold_3x4, 15, check_fold([3, 4]));
on_shape!(k_fold_3x3, 12, check_fold([3, 3]));
on_shape!(k_fold_1x3, 8, check_fold([1, 3]));
on_shape!(k_fold_2x3x2, 15, check_fold([2, 3, 2]));
on_shape!(k_fold_2x2x2, 11, check_fold([2, 2, 2]));
on_shape!(k_fold_3x1x1x2, 9, check_fold([3, 1, 1, 2]));

playback_tests!("fold");
