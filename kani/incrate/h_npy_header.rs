//! K-npy (C15, C16, C18, C07): npy reader/writer pieces that the Verus unit V-npyhdr assumes or
//! cannot reach: little-endian length field, the 20 value decoders, version bytes, value
//! round trip, truncated / extended files, chunked and failing sinks.
//! (compiled as a child module of core/src/array/npy/header.rs so that its private functions are reachable)
use std::io::{self, BufRead, Read, Write};

use super::*;
use crate::verif_kani::playback_tests;

/// A sink that accepts at most `chunk` bytes per `write` call and fails once `fail_at` bytes
/// have been accepted (fail_at = usize::MAX: never).
pub struct Sink {
    pub buf: [u8; 400],
    pub len: usize,
    pub chunk: usize,
    pub fail_at: usize,
    pub failed: bool,
}

impl Sink {
    pub fn new(chunk: usize, fail_at: usize) -> Self {
        Sink { buf: [0; 400], len: 0, chunk, fail_at, failed: false }
    }
}

impl Write for Sink {
    fn write(&mut self, b: &[u8]) -> io::Result<usize> {
        if self.len >= self.fail_at {
            self.failed = true;
            return Err(io::Error::from(io::ErrorKind::Other));
        }
        let mut n = if b.len() < self.chunk { b.len() } else { self.chunk };
        if self.len + n > self.fail_at {
            n = self.fail_at - self.len;
        }
        let mut i = 0;
        while i < n {
            self.buf[self.len + i] = b[i];
            i += 1;
        }
        self.len += n;
        Ok(n)
    }
    fn flush(&mut self) -> io::Result<()> {
        Ok(())
    }
}

// ------------------------------------------------------------------ length field (assumed by V-npyhdr)
#[kani::proof]
#[kani::unwind(6)]
fn k_npy_write_header_len() {
    let v = match kani::any::<u8>() % 3 {
        0 => Version::V1,
        1 => Version::V2,
        _ => Version::V3,
    };
    let header_len: usize = kani::any();
    let is_v1 = matches!(v, Version::V1);
    kani::assume(if is_v1 { header_len <= u16::MAX as usize } else { header_len <= u32::MAX as usize });
    let mut sink = Sink::new(8, usize::MAX);
    let r = v.write_header_len(header_len, &mut sink);
    assert!(r.is_ok(), "length field is written");
    if is_v1 {
        assert!(sink.len == 2, "v1 length field has 2 bytes");
        assert!(sink.buf[0] == (header_len & 0xff) as u8 && sink.buf[1] == ((header_len >> 8) & 0xff) as u8, "v1 length field is little-endian u16");
    } else {
        assert!(sink.len == 4, "v2/v3 length field has 4 bytes");
        assert!(
            sink.buf[0] == (header_len & 0xff) as u8
                && sink.buf[1] == ((header_len >> 8) & 0xff) as u8
                && sink.buf[2] == ((header_len >> 16) & 0xff) as u8
                && sink.buf[3] == ((header_len >> 24) & 0xff) as u8,
            "v2/v3 length field is little-endian u32"
        );
    }
    assert!(v.header_len_bytes_len() == sink.len, "header_len_bytes_len agrees with what is written");
    kani::cover!(is_v1);
    kani::cover!(!is_v1 && header_len > 70000);
}

#[kani::proof]
fn k_npy_version_bytes() {
    let b: [u8; 2] = kani::any();
    match Version::from_header_bytes(b) {
        Ok(Version::V1) => assert!(b[0] == 1, "V1 iff major 1"),
        Ok(Version::V2) => assert!(b[0] == 2, "V2 iff major 2"),
        Ok(Version::V3) => assert!(b[0] == 3, "V3 iff major 3"),
        Err(e) => assert!(b[0] == 0 || b[0] > 3, "other majors are rejected") ,
    }
    assert!(Version::V1.to_header_bytes() == [1, 0] && Version::V2.to_header_bytes() == [2, 0] && Version::V3.to_header_bytes() == [3, 0], "version bytes");
    kani::cover!(b[0] == 3);
    kani::cover!(b[0] == 7);
}

#[kani::proof]
#[kani::unwind(6)]
fn k_npy_read_header_len() {
    let bytes: [u8; 4] = kani::any();
    let mut r1 = &bytes[..];
    let l1 = Version::V1.read_header_len(&mut r1).unwrap();
    assert!(l1 == bytes[0] as usize + ((bytes[1] as usize) << 8), "v1 reads a little-endian u16");
    assert!(r1.len() == 2, "v1 consumes 2 bytes");
    let mut r2 = &bytes[..];
    let l2 = Version::V2.read_header_len(&mut r2).unwrap();
    assert!(
        l2 == bytes[0] as usize + ((bytes[1] as usize) << 8) + ((bytes[2] as usize) << 16) + ((bytes[3] as usize) << 24),
        "v2 reads a little-endian u32"
    );
    assert!(r2.len() == 0, "v2 consumes 4 bytes");
    let mut r3 = &bytes[..];
    assert!(Version::V3.read_header_len(&mut r3).unwrap() == l2, "v3 like v2");
    // short input is an error, not a short read
    let mut short = &bytes[..1];
    assert!(Version::V1.read_header_len(&mut short).is_err(), "v1: 1 byte is an error");
    let mut short = &bytes[..3];
    assert!(Version::V2.read_header_len(&mut short).is_err(), "v2: 3 bytes is an error");
    kani::cover!(l1 > 255);
}

// ------------------------------------------------------------------ value decoders: all byte patterns
fn assemble(bytes: &[u8], big: bool) -> u64 {
    // most significant byte first for big endian, last for little endian (independent of from_*_bytes)
    let n = bytes.len();
    let mut x: u64 = 0;
    let mut k = 0;
    while k < n {
        let b = if big { bytes[k] } else { bytes[n - 1 - k] };
        x = (x << 8) | b as u64;
        k += 1;
    }
    x
}

fn same_f64(a: f64, b: f64) -> bool {
    a.to_bits() == b.to_bits() || (a.is_nan() && b.is_nan())
}

fn check_decoder<const N: usize>(ty: Type, expect: fn(u64) -> f64) {
    let bytes: [u8; N] = kani::any();
    let big: bool = kani::any();
    let endian = if big { Endian::Big } else { Endian::Little };
    let mut reader = &bytes[..];
    let vals = TypeDescriptor::new(endian, ty).read(&mut reader);
    assert!(vals.is_ok(), "one complete value decodes");
    let vals = vals.unwrap();
    assert!(vals.len() == 1, "exactly one value");
    assert!(same_f64(vals[0], expect(assemble(&bytes, big))), "decoded value is the numpy conversion to float64");
    kani::cover!(big);
    kani::cover!(!big);
}

macro_rules! decoder {
    ($name:ident, $n:literal, $ty:expr, $conv:expr) => {
        #[kani::proof]
        #[kani::unwind(10)]
        fn $name() {
            check_decoder::<$n>($ty, $conv);
        }
    };
}

decoder!(k_npy_decode_f4, 4, Type::F4, |x| f32::from_bits(x as u32) as f64);
decoder!(k_npy_decode_f8, 8, Type::F8, |x| f64::from_bits(x));
decoder!(k_npy_decode_i1, 1, Type::I1, |x| (x as u8 as i8) as f64);
decoder!(k_npy_decode_i2, 2, Type::I2, |x| (x as u16 as i16) as f64);
decoder!(k_npy_decode_i4, 4, Type::I4, |x| (x as u32 as i32) as f64);
decoder!(k_npy_decode_i8, 8, Type::I8, |x| (x as i64) as f64);
decoder!(k_npy_decode_u1, 1, Type::U1, |x| (x as u8) as f64);
decoder!(k_npy_decode_u2, 2, Type::U2, |x| (x as u16) as f64);
decoder!(k_npy_decode_u4, 4, Type::U4, |x| (x as u32) as f64);
decoder!(k_npy_decode_u8, 8, Type::U8, |x| x as f64);

/// a partial trailing value is an error, never a silently shorter array (C16, C18)
fn decode_prefix<const N: usize>() {
    let bytes: [u8; N] = kani::any();
    let mut reader = &bytes[..];
    let r = TypeDescriptor::new(Endian::Little, Type::F4).read(&mut reader);
    if N % 4 == 0 {
        assert!(r.is_ok() && r.unwrap().len() == N / 4, "whole values decode, in number");
    } else {
        assert!(r.is_err(), "a partial trailing value is an error");
    }
    kani::cover!(true);
}

#[kani::proof]
#[kani::unwind(6)]
fn k_npy_decode_partial_value_is_error() {
    decode_prefix::<3>();
    decode_prefix::<6>();
}

/// f64 little-endian encoding round trip, all bit patterns (C07 value path)
#[kani::proof]
#[kani::unwind(10)]
fn k_npy_f64_le_roundtrip() {
    let x: u64 = kani::any();
    let v = f64::from_bits(x);
    let bytes = v.to_le_bytes();
    assert!(assemble(&bytes, false) == x, "to_le_bytes is the little-endian encoding of the bit pattern");
    assert!(f64::from_le_bytes(bytes).to_bits() == x, "from_le_bytes(to_le_bytes(v)) is bit-identical");
    kani::cover!(v.is_nan());
    kani::cover!(v.is_infinite());
}


// ------------------------------------------------------------------ read_array after the header (C16)
/// ASSUMED result of `Header::read` (nom parser / str::from_utf8 do not finish under CBMC): a version 1.0 header
/// declaring `<f8`, C order, shape (2,), consuming nothing from the value stream handed to the harness
fn stub_header_read_f8_shape2<R: io::BufRead>(_reader: &mut R) -> io::Result<Header> {
    Ok(Header::new(Version::V1, HeaderDict::new(TypeDescriptor::new(Endian::Little, Type::F8), false, vec![2])))
}

/// what follows the header must be exactly prod(shape) whole values: one value too few, one whole value too many
/// and a partial trailing value are all rejected; exactly two values give the array [v0, v1] bit for bit
fn read_array_after_header<const N: usize>() {
    let bytes: [u8; N] = kani::any();
    let mut reader = &bytes[..];
    let r = super::super::read_array(&mut reader);
    if N == 16 {
        assert!(r.is_ok(), "exactly prod(shape) values are accepted");
        let a = r.unwrap();
        assert!(a.shape().len() == 1 && a.shape()[0] == 2 && a.elements() == 2, "declared shape");
        let v = a.as_slice();
        assert!(v[0].to_bits() == assemble(&bytes[0..8], false) && v[1].to_bits() == assemble(&bytes[8..16], false), "values bit-identical, in order");
    } else {
        assert!(r.is_err(), "a value section that is not exactly prod(shape) whole values is rejected");
    }
    kani::cover!(true);
}

/// exactly prod(shape) values after the header: accepted, with the declared shape and the values bit for bit (C07, C16).
/// The rejecting cases (8, 20, 24 bytes) were measured and dropped: every error path of read_array builds an
/// `io::Error::new(kind, &str)` (boxed dyn Error), on which cbmc exceeded 10 GB; `std::io::Error::new` cannot be named in
/// `kani::stub` here. They stay decided piecewise: partial values by k_npy_decode_partial_value_is_error, a value count
/// different from prod(shape) by the Array::new harnesses (K-index).
#[kani::proof]
#[kani::unwind(10)]
#[kani::stub(Header::read, stub_header_read_f8_shape2)]
fn k_npy_read_array_exact() {
    read_array_after_header::<16>();
}

// (whole-file harnesses -- concrete files through Header::read / the nom parser / str::from_utf8 -- and the
// HeaderDict Display text harness were dropped: none finished within 1200 s under CBMC; see DESIGN.md section 10)

// ------------------------------------------------------------------ short writes and failing sinks (C18)
/// Display of HeaderDict stubbed by the text it produces for shape (3,) (number formatting under CBMC is the
/// cost driver); the harnesses below are about the byte *transport*, not the text
fn stub_dict_fmt(_d: &HeaderDict, f: &mut fmt::Formatter<'_>) -> fmt::Result {
    f.write_str("{'descr': '<f8', 'fortran_order': False, 'shape': (3,), }")
}

fn header_through(chunk: usize, fail_at: usize) -> (io::Result<()>, Sink) {
    let h = Header::new(Version::V1, HeaderDict::new(TypeDescriptor::new(Endian::Little, Type::F8), false, vec![3]));
    let mut sink = Sink::new(chunk, fail_at);
    let r = h.write(&mut sink);
    (r, sink)
}

/// the header bytes do not depend on how many bytes the sink accepts per call (1, 3 or 7 at a time),
/// are 64-byte aligned and newline-terminated
#[kani::proof]
#[kani::unwind(135)]
#[kani::stub(<HeaderDict as fmt::Display>::fmt, stub_dict_fmt)]
fn k_npy_header_write_short_writes() {
    let (r0, full) = header_through(400, usize::MAX);
    assert!(r0.is_ok() && full.len == 128, "header of shape (3,) is 128 bytes");
    assert!(full.buf[127] == b'\n' && full.buf[126] == b' ', "padding then newline");
    assert!(full.buf[8] == 118 && full.buf[9] == 0, "little-endian length of dict + padding");
    let chunks = [1usize, 3, 7];
    let mut c = 0;
    while c < 3 {
        let (r, s) = header_through(chunks[c], usize::MAX);
        assert!(r.is_ok(), "short writes are not errors");
        assert!(s.len == full.len, "same number of bytes through a sink that accepts few bytes per call");
        let mut i = 0;
        while i < 128 {
            assert!(s.buf[i] == full.buf[i], "same bytes through a sink that accepts few bytes per call");
            i += 1;
        }
        c += 1;
    }
    kani::cover!(true);
}

// (the failing-sink harness was dropped: io::Error construction on the error path drove CBMC to 12 GB; the
// Verus unit V-npyhdr proves `Ok only if no write failed` for every sink obeying the write_all contract)

/// C07 / C15: `write_array` emits, after the 128-byte header of shape (2,), exactly the 16 bytes of the two
/// values, least significant byte first, for ALL f64 bit patterns (NaN payloads, -0.0, subnormals included)
#[kani::proof]
#[kani::unwind(150)]
#[kani::stub(<HeaderDict as fmt::Display>::fmt, stub_dict_fmt)]
fn k_npy_write_array_values_bit_exact() {
    let b0: u64 = kani::any();
    let b1: u64 = kani::any();
    let arr = crate::array::Array::new(vec![f64::from_bits(b0), f64::from_bits(b1)], crate::array::Shape(vec![2])).unwrap();
    let mut sink = Sink::new(400, usize::MAX);
    let r = crate::array::npy::write_array(&mut sink, &arr);
    assert!(r.is_ok(), "writing to a healthy sink succeeds");
    assert!(sink.len == 128 + 16, "header, then 8 bytes per value");
    let mut k = 0;
    while k < 8 {
        assert!(sink.buf[128 + k] == ((b0 >> (8 * k)) & 0xff) as u8, "first value: little-endian bytes of its bit pattern");
        assert!(sink.buf[136 + k] == ((b1 >> (8 * k)) & 0xff) as u8, "second value: little-endian bytes of its bit pattern");
        k += 1;
    }
    kani::cover!(f64::from_bits(b0).is_nan());
    kani::cover!(b1 == 0x8000000000000000);
}


// (a second attempt at whole-file harnesses -- a 19-byte file with a 6-byte header, HeaderDict::from_str stubbed --
// also exceeded 1500 s for two read_array calls and was dropped; see DESIGN.md section 10)


// ------------------------------------------------------------------ chunked readers (C18)
/// BufRead over a byte array that hands out at most `chunk` bytes per fill_buf / read call
struct ChunkedReader<'a> {
    data: &'a [u8],
    pos: usize,
    chunk: usize,
}

impl<'a> Read for ChunkedReader<'a> {
    fn read(&mut self, buf: &mut [u8]) -> io::Result<usize> {
        let left = self.data.len() - self.pos;
        let mut n = if buf.len() < left { buf.len() } else { left };
        if n > self.chunk {
            n = self.chunk;
        }
        let mut i = 0;
        while i < n {
            buf[i] = self.data[self.pos + i];
            i += 1;
        }
        self.pos += n;
        Ok(n)
    }
}

impl<'a> BufRead for ChunkedReader<'a> {
    fn fill_buf(&mut self) -> io::Result<&[u8]> {
        let left = self.data.len() - self.pos;
        let n = if left < self.chunk { left } else { self.chunk };
        Ok(&self.data[self.pos..self.pos + n])
    }
    fn consume(&mut self, n: usize) {
        self.pos += n;
    }
}

/// the decoded values do not depend on how the reader chunks the stream (1 or 3 bytes per call)
#[kani::proof]
#[kani::unwind(12)]
fn k_npy_decode_chunked_reader() {
    let bytes: [u8; 8] = kani::any();
    let whole = TypeDescriptor::new(Endian::Big, Type::I4).read(&mut &bytes[..]).unwrap();
    assert!(whole.len() == 2, "two i4 values");
    let chunks = [1usize, 3];
    let mut c = 0;
    while c < 2 {
        let mut r = ChunkedReader { data: &bytes, pos: 0, chunk: chunks[c] };
        let got = TypeDescriptor::new(Endian::Big, Type::I4).read(&mut r);
        assert!(got.is_ok(), "a chunked stream of whole values decodes");
        let got = got.unwrap();
        assert!(got.len() == 2 && got[0] == whole[0] && got[1] == whole[1], "same values for every chunking of the stream");
        c += 1;
    }
    kani::cover!(true);
}


/// a longer array (64 values = 512 data bytes, a typical buffer size): every value arrives, in order
#[kani::proof]
#[kani::unwind(70)]
#[kani::stub(<HeaderDict as fmt::Display>::fmt, stub_dict_fmt)]
fn k_npy_write_array_64_values() {
    let mut data = Vec::with_capacity(64);
    let mut i = 0;
    while i < 64 {
        data.push((i * i + 1) as f64);
        i += 1;
    }
    let arr = crate::array::Array::new(data, crate::array::Shape(vec![64])).unwrap();
    let mut sink = BigSink { buf: [0; 700], len: 0 };
    assert!(crate::array::npy::write_array(&mut sink, &arr).is_ok(), "writing succeeds");
    assert!(sink.len == 128 + 512, "header, then 8 bytes per value, for all 64 values");
    let mut k = 0;
    while k < 64 {
        let bits = ((k * k + 1) as f64).to_bits();
        assert!(sink.buf[128 + 8 * k] == (bits & 0xff) as u8 && sink.buf[128 + 8 * k + 7] == (bits >> 56) as u8, "value k at offset 128 + 8k");
        k += 1;
    }
    kani::cover!(true);
}

struct BigSink {
    buf: [u8; 700],
    len: usize,
}

impl Write for BigSink {
    fn write(&mut self, b: &[u8]) -> io::Result<usize> {
        let mut i = 0;
        while i < b.len() {
            self.buf[self.len + i] = b[i];
            i += 1;
        }
        self.len += b.len();
        Ok(b.len())
    }
    fn flush(&mut self) -> io::Result<()> {
        Ok(())
    }
}

playback_tests!("h_npy_header");
