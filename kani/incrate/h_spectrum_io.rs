//! compiled as a child module of core/src/spectrum/io.rs (private `Format::detect*` reachable)
//! K-detect (C16, C17, C18): spectrum format detection on every byte string of length 0..=8.
//! COMPLETE for those lengths: the functions inspect at most the first 6 bytes and contain no loop
//! that depends on the remaining input.
#[allow(unused_imports)]
use super::*;
use crate::verif_kani::playback_tests;

#[kani::proof]
#[kani::unwind(10)]
fn k_detect_spectrum_format() {
    let bytes: [u8; 8] = kani::any();
    let n: usize = kani::any();
    kani::assume(n <= 8);
    let got = Format::detect(&bytes[..n]);
    let is_npy = n >= 6 && bytes[0] == 0x93 && bytes[1] == b'N' && bytes[2] == b'U' && bytes[3] == b'M' && bytes[4] == b'P' && bytes[5] == b'Y';
    let is_text = n >= 6 && bytes[0] == b'#' && bytes[1] == b'S' && bytes[2] == b'H' && bytes[3] == b'A' && bytes[4] == b'P' && bytes[5] == b'E';
    if is_npy {
        assert!(got == Some(Format::Npy), "npy magic is detected");
    } else if is_text {
        assert!(got == Some(Format::Text), "text header is detected");
    } else {
        assert!(got.is_none(), "anything else (including inputs shorter than the magic) is no known format");
    }
    kani::cover!(is_npy);
    kani::cover!(is_text);
    kani::cover!(n < 6);
}

playback_tests!("h_spectrum_io");
