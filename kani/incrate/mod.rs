//! Kani proof harnesses compiled *inside* sfs-core (cfg(kani) hook at the end of
//! core/src/lib.rs), so that private items are exercised as they are.
//! Harness naming: k_<group>_<what>; every harness ends with at least one
//! kani::cover!() behind its assumptions (vacuity guard; the runner requires
//! every cover to be SATISFIED).
#![allow(dead_code, unused_imports, clippy::all)]

/// native replay of Kani counterexamples: the runner writes the generated
/// `kani_concrete_playback_*` tests to /verif/.build/playback/<module>.rs and runs
/// `cargo kani playback`; outside of playback (cfg(test) off) nothing is included.
macro_rules! playback_tests {
    ($m:literal) => {
        #[cfg(test)]
        mod playback {
            #[allow(unused_imports)]
            use super::*;
            include!(concat!("/verif/.build/playback/", $m, ".rs"));
        }
    };
}

pub(crate) use playback_tests;

pub(crate) mod util;

mod geno;
mod index;
mod view;
mod fold;
