//! K-geno (C08, C01): `From<Option<VcfGenotype>> for genotype::Result` over the
//! full domain of allele pairs.  Loop-free => complete proof, no unwinding bound.
use noodles_vcf::record::genotypes::sample::value::genotype::{
    allele::Phasing, Allele, Genotype as VcfGenotype,
};

use crate::input::genotype::{self, Genotype, Skipped};

fn any_phasing() -> Phasing {
    if kani::any() {
        Phasing::Phased
    } else {
        Phasing::Unphased
    }
}

/// the statement's own classification (oracle), written from C08
fn oracle(a: Option<usize>, b: Option<usize>) -> genotype::Result {
    match (a, b) {
        (None, _) | (_, None) => genotype::Result::Skipped(Skipped::Missing),
        (Some(a), Some(b)) => {
            if a >= 2 || b >= 2 {
                genotype::Result::Skipped(Skipped::Multiallelic)
            } else {
                // number of alleles equal to ALT allele 1
                let n = (a == 1) as usize + (b == 1) as usize;
                genotype::Result::Genotype(match n {
                    0 => Genotype::Zero,
                    1 => Genotype::One,
                    _ => Genotype::Two,
                })
            }
        }
    }
}

#[kani::proof]
fn k_geno_diploid_classification() {
    let a: Option<usize> = kani::any();
    let b: Option<usize> = kani::any();
    let g = VcfGenotype::try_from(vec![
        Allele::new(a, any_phasing()),
        Allele::new(b, any_phasing()),
    ])
    .unwrap();
    let got = genotype::Result::from(Some(g));
    assert!(got == oracle(a, b), "C08 diploid classification");
    kani::cover!(matches!(got, genotype::Result::Genotype(Genotype::Two)));
    kani::cover!(matches!(got, genotype::Result::Skipped(Skipped::Multiallelic)));
    kani::cover!(matches!(got, genotype::Result::Skipped(Skipped::Missing)));
}

#[kani::proof]
fn k_geno_haploid_is_ploidy_error() {
    let a: Option<usize> = kani::any();
    let g = VcfGenotype::try_from(vec![Allele::new(a, any_phasing())]).unwrap();
    let got = genotype::Result::from(Some(g));
    assert!(got == genotype::Result::Error(genotype::Error::PloidyError), "C08 ploidy 1");
    kani::cover!(true);
}

#[kani::proof]
fn k_geno_triploid_is_ploidy_error() {
    let g = VcfGenotype::try_from(vec![
        Allele::new(kani::any(), any_phasing()),
        Allele::new(kani::any(), any_phasing()),
        Allele::new(kani::any(), any_phasing()),
    ])
    .unwrap();
    let got = genotype::Result::from(Some(g));
    assert!(got == genotype::Result::Error(genotype::Error::PloidyError), "C08 ploidy 3");
    kani::cover!(true);
}

#[kani::proof]
fn k_geno_absent_is_missing() {
    let got = genotype::Result::from(None);
    assert!(got == genotype::Result::Skipped(Skipped::Missing), "C08 absent genotype");
    kani::cover!(true);
}

#[kani::proof]
fn k_geno_try_from_raw() {
    let raw: usize = kani::any();
    match Genotype::try_from_raw(raw) {
        Some(g) => assert!(raw <= 2 && g as u8 as usize == raw, "try_from_raw value"),
        None => assert!(raw > 2, "try_from_raw none"),
    }
    kani::cover!(raw == 2);
    kani::cover!(raw > 2);
}

playback_tests!("geno");
