//! helpers shared by harnesses
