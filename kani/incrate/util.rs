//! helpers shared by harnesses
use crate::array::{Array, Shape};

/// a symbolic shape with `d` axes, every length in lo..=hi
pub fn any_shape(d: usize, lo: usize, hi: usize) -> Vec<usize> {
    let mut v = Vec::with_capacity(d);
    for _ in 0..d {
        let n: usize = kani::any();
        kani::assume(n >= lo && n <= hi);
        v.push(n);
    }
    v
}

/// row-major flat position of `index` in `shape`, written from the definition
/// (Horner scheme; independent of Shape::strides)
pub fn flat_of(shape: &[usize], index: &[usize]) -> usize {
    let mut flat = 0usize;
    let mut k = 0;
    while k < shape.len() {
        flat = flat * shape[k] + index[k];
        k += 1;
    }
    flat
}

pub fn product(shape: &[usize]) -> usize {
    let mut p = 1usize;
    let mut k = 0;
    while k < shape.len() {
        p *= shape[k];
        k += 1;
    }
    p
}

/// array whose element at flat position p is p (so elements identify positions)
pub fn iota(shape: &[usize]) -> Array<usize> {
    let n = product(shape);
    let mut data = Vec::with_capacity(n);
    let mut p = 0;
    while p < n {
        data.push(p);
        p += 1;
    }
    Array::new(data, Shape(shape.to_vec())).unwrap()
}
