//! compiled as a child module of core/src/spectrum.rs (private items reachable)
//! K-marg (C04): `Spectrum::marginalize` against the definition (sum over the removed axes), every
//! subset of axes in every order for one concrete shape per harness, plus the error cases.
//! BOUNDED in shape; cells are distinct integers (exact f64 sums).
#[allow(unused_imports)]
use super::*;
use crate::verif_kani::playback_tests;
use crate::verif_kani::util::*;

fn cell(p: usize) -> f64 {
    (p * p + 3 * p + 1) as f64
}

/// brute force: marginal[rest] = sum over all full indices that agree with `rest` on the kept axes
fn brute_marginal<const D: usize>(shape: &[usize; D], removed: &[bool; D], kept_flat: usize) -> f64 {
    // unflatten kept_flat over the kept axes (row-major, original order)
    let mut kept_idx = [0usize; D];
    let mut rem = kept_flat;
    let mut j = D;
    while j > 0 {
        j -= 1;
        if !removed[j] {
            kept_idx[j] = rem % shape[j];
            rem /= shape[j];
        }
    }
    let n = product(shape);
    let mut sum = 0.0;
    let mut p = 0;
    while p < n {
        // unflatten p
        let mut idx = [0usize; D];
        let mut r = p;
        let mut j = D;
        while j > 0 {
            j -= 1;
            idx[j] = r % shape[j];
            r /= shape[j];
        }
        let mut agrees = true;
        let mut j = 0;
        while j < D {
            if !removed[j] && idx[j] != kept_idx[j] {
                agrees = false;
            }
            j += 1;
        }
        if agrees {
            sum += cell(p);
        }
        p += 1;
    }
    sum
}

fn check_marginalize<const D: usize>(shape: [usize; D], axes: &[usize]) {
    let n = product(&shape);
    let mut data = Vec::with_capacity(n);
    let mut p = 0;
    while p < n {
        data.push(cell(p));
        p += 1;
    }
    let scs = Scs::new(data, Shape(shape.to_vec())).unwrap();
    let ax: Vec<Axis> = axes.iter().map(|&a| Axis(a)).collect();
    let m = scs.marginalize(&ax).unwrap();
    let mut removed = [false; D];
    for &a in axes {
        removed[a] = true;
    }
    // remaining axes in original order
    let mut k = 0;
    let mut j = 0;
    let mut kept_n = 1;
    while j < D {
        if !removed[j] {
            assert!(m.shape()[k] == shape[j], "remaining axes keep their original order");
            kept_n *= shape[j];
            k += 1;
        }
        j += 1;
    }
    assert!(m.dimensions() == k, "one axis per kept axis");
    assert!(m.elements() == kept_n, "size of the marginal");
    let mut q = 0;
    let mut total = 0.0;
    while q < kept_n {
        assert!(m.inner().as_slice()[q] == brute_marginal(&shape, &removed, q), "entry = sum over all indices of the removed axes");
        total += m.inner().as_slice()[q];
        q += 1;
    }
    assert!(total == scs.sum(), "total mass is preserved");
}

/// `Array::sum` by its contract: entry q of the result is the sum of the entries whose index with `axis` dropped
/// is the row-major unflattening of q over the remaining axes.  Used as a CONTRACT STUB for `Array::sum` in the
/// multi-axis marginalize harnesses (two real sums on a 12-cell array exhaust CBMC's memory); the real `sum` is
/// checked against the same definition by the single-axis harnesses k_marg_2x3_a0/a1 and k_marg_2x3x2_a1.
pub(crate) fn sum_by_definition(a: &Array<f64>, axis: Axis) -> Array<f64> {
    let shape = a.shape().0.clone();
    let d = shape.len();
    let mut new_shape = Vec::with_capacity(d - 1);
    let mut j = 0;
    while j < d {
        if j != axis.0 {
            new_shape.push(shape[j]);
        }
        j += 1;
    }
    let n = product(&shape);
    let m = product(&new_shape);
    let mut out = vec![0.0f64; m];
    let mut p = 0;
    while p < n {
        // flat position q of p's index with `axis` dropped
        let mut rem = p;
        let mut q = 0;
        let mut mult = 1;
        let mut j = d;
        while j > 0 {
            j -= 1;
            let i = rem % shape[j];
            rem /= shape[j];
            if j != axis.0 {
                q += i * mult;
                mult *= shape[j];
            }
        }
        out[q] += a.as_slice()[p];
        p += 1;
    }
    Array::new(out, Shape(new_shape)).unwrap()
}

macro_rules! marg_stubbed {
    ($name:ident, $unw:literal, $shape:expr, $axes:expr) => {
        #[kani::proof]
        #[kani::unwind($unw)]
        #[kani::stub(crate::array::Array::sum, sum_by_definition)]
        fn $name() {
            check_marginalize($shape, &$axes);
            kani::cover!(true);
        }
    };
}

// one marginalize call per harness (several calls in one harness exceeded 30 min / 6 GB)
macro_rules! marg {
    ($name:ident, $unw:literal, $shape:expr, $axes:expr) => {
        #[kani::proof]
        #[kani::unwind($unw)]
        fn $name() {
            check_marginalize($shape, &$axes);
            kani::cover!(true);
        }
    };
}

marg!(k_marg_2x3_a0, 10, [2, 3], [0]);
// k_marg_2x3_a1 ([2,3], LAST axis) was registered until the thorough trial: cbmc grows to 54 GB on it (OOM-killed).
// The same happens for the last axis of [3,2], [2,2] and even [1,2] (> 15 GB each), so the real `Array::sum` is
// exercised along first and middle axes only; the last axis is covered at the view level (V-view, V-axisiter, K-view)
// and through the contract stub in the multi-axis harnesses.
marg!(k_marg_2x3x2_a1, 16, [2, 3, 2], [1]);
marg!(k_marg_2x3x2_a0, 16, [2, 3, 2], [0]);
marg_stubbed!(k_marg_2x3x2_a20, 16, [2, 3, 2], [2, 0]);
marg_stubbed!(k_marg_2x3x2_a01, 16, [2, 3, 2], [0, 1]);
marg_stubbed!(k_marg_2x2x1x2_a302, 12, [2, 2, 1, 2], [3, 0, 2]);
marg_stubbed!(k_marg_2x2x1x2_a132, 12, [2, 2, 1, 2], [1, 3, 2]);
marg_stubbed!(k_marg_2x3x1x2_a031, 16, [2, 3, 1, 2], [0, 3, 1]);

/// error cases on concrete axis lists (a symbolic list did not finish in 1200 s): duplicates (adjacent
/// and not), out-of-range axes (incl. usize::MAX), every axis removed, and combinations
fn expect_err(axes: &[usize], want: u8) {
    let scs = Scs::from_zeros(Shape(vec![2, 2, 2]));
    let ax: Vec<Axis> = axes.iter().map(|&a| Axis(a)).collect();
    match scs.marginalize(&ax) {
        Err(MarginalizationError::DuplicateAxis { axis }) => assert!(want == 0 && axes.iter().filter(|&&a| a == axis).count() >= 2, "DuplicateAxis names a duplicated axis"),
        Err(MarginalizationError::AxisOutOfBounds { axis, dimensions }) => assert!(want == 1 && axis >= 3 && dimensions == 3, "AxisOutOfBounds names an out-of-range axis"),
        Err(MarginalizationError::TooManyAxes { axes: n, dimensions }) => assert!(want == 2 && n == axes.len() && dimensions == 3, "TooManyAxes"),
        Ok(_) => assert!(false, "duplicate axes, out-of-range axes or removing every axis are errors"),
    }
}

#[kani::proof]
#[kani::unwind(8)]
fn k_marg_errors() {
    expect_err(&[0, 0], 0);
    expect_err(&[1, 0, 1], 0);
    expect_err(&[2, 2], 0);
    expect_err(&[3], 1);
    expect_err(&[0, usize::MAX], 1);
    expect_err(&[5, 1], 1);
    expect_err(&[0, 1, 2], 2);
    expect_err(&[2, 0, 1], 2);
    expect_err(&[3, 3], 0);
    kani::cover!(true);
}

// ------------------------------------------------------------------------------------------------
// K-stat (C06, C14, C17): statistics through the public methods of `Spectrum`.
//   * panic-freedom of all 14 statistics on small and degenerate shapes (C17), with the float
//     transcendental helpers (`utils::binomial`, which goes through ln/exp) STUBBED by a table;
//   * KING / R0 / R1 equal the stated ratios on integer-valued 3x3 tables (C06);
//   * statistics that must not depend on the two monomorphic cells do not (C14): two runs that
//     differ only in cell 0 and cell n-1 give bit-identical results.
// BOUNDED in shape (listed per harness).

/// `Strides::flat_index` by its contract (row-major position, None unless lengths agree and every index is in
/// range) -- checked against the real function by the K-index harnesses; used as a CONTRACT STUB where a harness
/// indexes a spectrum many times
pub(crate) fn flat_index_by_definition<I: AsRef<[usize]>>(st: &crate::array::shape::Strides, shape: &Shape, index: I) -> Option<usize> {
    let idx = index.as_ref();
    let d = shape.0.len();
    if st.0.len() != d || idx.len() != d {
        return None;
    }
    let mut flat = 0usize;
    let mut k = 0;
    while k < d {
        if idx[k] >= shape.0[k] {
            return None;
        }
        flat = flat * shape.0[k] + idx[k];
        k += 1;
    }
    Some(flat)
}

/// `Shape::index_from_flat_unchecked` by its contract (row-major unflattening), checked by K-index
pub(crate) fn index_from_flat_by_definition(shape: &Shape, flat: usize) -> Vec<usize> {
    let d = shape.0.len();
    let mut idx = vec![0usize; d];
    let mut rem = flat;
    let mut j = d;
    while j > 0 {
        j -= 1;
        idx[j] = rem % shape.0[j];
        rem /= shape.0[j];
    }
    idx
}

/// stub for f64::sqrt (CBMC models sqrt by a constraint system that dominates the run time): any value.
/// Only used where the *value* of a statistic is not asserted (totality, non-interference by two runs
/// is NOT compatible with this stub and does not use it).
pub(crate) fn sqrt_stub(_x: f64) -> f64 {
    kani::any()
}

/// stub for utils::binomial (real one uses ln/exp, unsupported by CBMC): exact for n <= 8
pub(crate) fn binomial_stub(n: u64, k: u64) -> f64 {
    if k > n || n > 8 {
        return 0.0;
    }
    const T: [[u64; 9]; 9] = [
        [1, 0, 0, 0, 0, 0, 0, 0, 0],
        [1, 1, 0, 0, 0, 0, 0, 0, 0],
        [1, 2, 1, 0, 0, 0, 0, 0, 0],
        [1, 3, 3, 1, 0, 0, 0, 0, 0],
        [1, 4, 6, 4, 1, 0, 0, 0, 0],
        [1, 5, 10, 10, 5, 1, 0, 0, 0],
        [1, 6, 15, 20, 15, 6, 1, 0, 0],
        [1, 7, 21, 35, 35, 21, 7, 1, 0],
        [1, 8, 28, 56, 70, 56, 28, 8, 1],
    ];
    T[n as usize][k as usize] as f64
}

fn iota_scs(shape: &[usize]) -> Scs {
    let n = product(shape);
    let mut data = Vec::with_capacity(n);
    let mut p = 0;
    while p < n {
        data.push((p + 1) as f64);
        p += 1;
    }
    Scs::new(data, Shape(shape.to_vec())).unwrap()
}

fn bits(r: Result<f64, StatisticError>) -> Option<u64> {
    r.ok().map(|x| x.to_bits())
}

/// all 14 statistics return Ok or a StatisticError on this shape -- they never panic or overflow
fn all_stats_total(shape: &[usize]) {
    let scs = iota_scs(shape);
    let d = shape.len();
    assert!(scs.theta_watterson().is_ok() == (d == 1), "theta: Ok iff one axis");
    assert!(scs.pi().is_ok() == (d == 1), "pi: Ok iff one axis");
    assert!(scs.d_tajima().is_ok() == (d == 1), "Tajima D: Ok iff one axis");
    assert!(scs.d_fu_li().is_ok() == (d == 1), "Fu-Li D: Ok iff one axis");
    assert!(scs.pi_xy().is_ok() == (d == 2), "pi_xy: Ok iff two axes");
    let is33 = d == 2 && shape[0] == 3 && shape[1] == 3;
    assert!(scs.king().is_ok() == is33, "KING: Ok iff 3x3");
    assert!(scs.r0().is_ok() == is33, "R0: Ok iff 3x3");
    assert!(scs.r1().is_ok() == is33, "R1: Ok iff 3x3");
    let _ = scs.segregating_sites();
    let _ = scs.sum();
    let sfs = scs.into_normalized();
    assert!(sfs.f2().is_ok() == (d == 2), "f2: Ok iff two axes");
    assert!(sfs.fst().is_ok() == (d == 2), "Fst: Ok iff two axes");
    assert!(sfs.f3().is_ok() == (d == 3), "f3: Ok iff three axes");
    assert!(sfs.f4().is_ok() == (d == 4), "f4: Ok iff four axes");
}

macro_rules! stats_total {
    ($name:ident, $($shape:expr),+) => {
        #[kani::proof]
        #[kani::unwind(20)]
        #[kani::stub(crate::utils::binomial, binomial_stub)]
        #[kani::stub(f64::sqrt, sqrt_stub)]
        fn $name() {
            $(all_stats_total(&$shape);)+
            kani::cover!(true);
        }
    };
}

stats_total!(k_stat_total_1d_1, [1]);
stats_total!(k_stat_total_1d_2, [2]);
stats_total!(k_stat_total_1d_3, [3]);
stats_total!(k_stat_total_1d_4, [4]);
// zero-length axes (a text file may declare #SHAPE=<0> or <0/2> with no values)
stats_total!(k_stat_total_1d_0, [0]);
stats_total!(k_stat_total_2d_0x2, [0, 2]);
stats_total!(k_stat_total_2d_1x1, [1, 1]);
stats_total!(k_stat_total_2d_1x3, [1, 3]);
stats_total!(k_stat_total_2d_2x1, [2, 1]);
stats_total!(k_stat_total_2d_2x2, [2, 2]);
stats_total!(k_stat_total_2d_3x3, [3, 3]);

stats_total!(k_stat_total_3d_1x1x1, [1, 1, 1]);
stats_total!(k_stat_total_3d_2x1x2, [2, 1, 2]);
stats_total!(k_stat_total_4d_1x1x1x1, [1, 1, 1, 1]);
stats_total!(k_stat_total_4d_2x1x1x2, [2, 1, 1, 2]);

/// KING, R0, R1 equal the stated ratios (C06) on concrete asymmetric integer tables (a symbolic table
/// needs symbolic f64 divisions, which did not finish in 1200 s); transposition invariance (C14)
fn check_king(c: [u8; 9]) {
    let mut data = Vec::with_capacity(9);
    let mut tdata = Vec::with_capacity(9);
    let mut i = 0;
    while i < 9 {
        data.push(c[i] as f64);
        tdata.push(c[3 * (i % 3) + i / 3] as f64);
        i += 1;
    }
    let scs = Scs::new(data, Shape(vec![3, 3])).unwrap();
    let tscs = Scs::new(tdata, Shape(vec![3, 3])).unwrap();
    let g = |i: usize, j: usize| c[3 * i + j] as i64;
    let king_num = g(1, 1) - 2 * (g(0, 2) + g(2, 0));
    let king_den = g(0, 1) + g(1, 0) + 2 * g(1, 1) + g(1, 2) + g(2, 1);
    let r0_num = g(0, 2) + g(2, 0);
    let r1_den = g(0, 1) + g(0, 2) + g(1, 0) + g(1, 2) + g(2, 0) + g(2, 1);
    assert!(scs.king().unwrap() == king_num as f64 / king_den as f64, "KING = (HetHet - 2(opposite homozygotes)) / (HetHom pairs + 2 HetHet)");
    assert!(scs.r0().unwrap() == r0_num as f64 / g(1, 1) as f64, "R0 = opposite homozygotes / HetHet");
    assert!(scs.r1().unwrap() == g(1, 1) as f64 / r1_den as f64, "R1 = HetHet / discordant pairs");
    assert!(scs.king().unwrap() == tscs.king().unwrap(), "KING is symmetric in the two individuals");
    assert!(scs.r0().unwrap() == tscs.r0().unwrap(), "R0 is symmetric in the two individuals");
    assert!(scs.r1().unwrap() == tscs.r1().unwrap(), "R1 is symmetric in the two individuals");
}

#[kani::proof]
#[kani::unwind(20)]
fn k_stat_king_r0_r1_definition() {
    check_king([40, 2, 1, 20, 8, 10, 2, 3, 25]);
    kani::cover!(true);
}

/// C14: statistics that must ignore the two monomorphic cells do: runs that differ only in cell 0
/// and cell n-1 agree bit for bit (the other cells are fixed distinct integers)
fn monomorphic_noninterference(shape: &[usize]) {
    let n = product(shape);
    let a = iota_scs(shape);
    let mut b = iota_scs(shape);
    let x0 = f64::from_bits(kani::any());
    let x1 = f64::from_bits(kani::any());
    b.inner_mut().as_mut_slice()[0] = x0;
    b.inner_mut().as_mut_slice()[n - 1] = x1;
    let d = shape.len();
    if d == 1 {
        assert!(bits(a.theta_watterson()) == bits(b.theta_watterson()), "Watterson's theta ignores the monomorphic cells");
        assert!(bits(a.pi()) == bits(b.pi()), "pi ignores the monomorphic cells");
    }
    if d == 2 {
        assert!(bits(a.pi_xy()) == bits(b.pi_xy()), "pi_xy ignores the monomorphic cells");
        if shape[0] == 3 && shape[1] == 3 {
            assert!(bits(a.king()) == bits(b.king()), "KING ignores the monomorphic cells");
            assert!(bits(a.r0()) == bits(b.r0()), "R0 ignores the monomorphic cells");
            assert!(bits(a.r1()) == bits(b.r1()), "R1 ignores the monomorphic cells");
        }
    }
    assert!(a.segregating_sites().to_bits() == b.segregating_sites().to_bits(), "S ignores the monomorphic cells");
}

#[kani::proof]
#[kani::unwind(20)]
#[kani::stub(crate::utils::binomial, binomial_stub)]
fn k_stat_monomorphic_1d() {
    monomorphic_noninterference(&[4]);
    monomorphic_noninterference(&[5]);
    kani::cover!(true);
}

#[kani::proof]
#[kani::unwind(20)]
#[kani::stub(crate::utils::binomial, binomial_stub)]
fn k_stat_monomorphic_2d() {
    monomorphic_noninterference(&[3, 3]);
    monomorphic_noninterference(&[2, 4]);
    kani::cover!(true);
}

/// S, sum and pi_xy equal their definitions on integer-valued cells (C06)
#[kani::proof]
#[kani::unwind(20)]
fn k_stat_s_sum_pixy_definition() {
    let shape = [3usize, 4usize];
    let scs = iota_scs(&shape);
    let n = 12;
    let x = scs.inner().as_slice();
    let mut sum = 0.0;
    let mut s = 0.0;
    let mut p = 0;
    while p < n {
        sum += x[p];
        if p != 0 && p != n - 1 {
            s += x[p];
        }
        p += 1;
    }
    assert!(scs.sum() == sum, "sum = sum of all cells");
    assert!(scs.segregating_sites() == s, "S = sum of the polymorphic cells");
    // pi_xy = sum x[m1,m2] (m1 (n2-m2) + m2 (n1-m1)) / (n1 n2), n1 = 2, n2 = 3 chromosomes
    let (n1, n2) = (2usize, 3usize);
    let mut num = 0.0;
    let mut m1 = 0;
    while m1 <= n1 {
        let mut m2 = 0;
        while m2 <= n2 {
            let p = m1 * 4 + m2;
            if p != 0 && p != n - 1 {
                num += x[p] * ((m1 * (n2 - m2) + m2 * (n1 - m1)) as f64);
            }
            m2 += 1;
        }
        m1 += 1;
    }
    assert!(scs.pi_xy().unwrap() == num / ((n1 * n2) as f64), "pi_xy = mean between-population pairwise difference");
    kani::cover!(true);
}

/// stub for f64::powi (CBMC's model of the powi intrinsic is not exact: with it the concrete f2 harness failed
/// after 450 s): repeated multiplication, which is what LLVM emits for the exponent 2 used in stat.rs
pub(crate) fn powi_stub(x: f64, n: i32) -> f64 {
    let mut r = 1.0;
    let mut k = 0;
    while k < n && k < 4 {
        r *= x;
        k += 1;
    }
    r
}

fn close(a: f64, b: f64) -> bool {
    let d = a - b;
    d < 1e-9 && d > -1e-9
}

/// multi-index of flat position p (row-major), computed independently of the crate
fn digits_of<const D: usize>(shape: &[usize; D], p: usize) -> [usize; D] {
    let mut idx = [0usize; D];
    let mut r = p;
    let mut j = D;
    while j > 0 {
        j -= 1;
        idx[j] = r % shape[j];
        r /= shape[j];
    }
    idx
}

/// frequency of axis j at multi-index idx: derived allele count over the number of chromosomes
fn fr<const D: usize>(shape: &[usize; D], idx: &[usize; D], j: usize) -> f64 {
    idx[j] as f64 / (shape[j] - 1) as f64
}

/// f2 and Hudson's Fst against their defining sums (C06) on a normalised 3x4 spectrum with distinct
/// cells; f2 is symmetric in the two populations (C14).  Cells are concrete (CBMC evaluates the IEEE
/// operations exactly), compared up to 1e-9: BOUNDED stand-in, one shape, one table.
#[kani::proof]
#[kani::unwind(20)]
#[kani::stub(f64::powi, powi_stub)]
fn k_stat_f2_fst_definition() {
    let shape = [3usize, 4usize];
    let sfs = iota_scs(&shape).into_normalized();
    let x = sfs.inner().as_slice();
    let mut f2 = 0.0;
    let mut num = 0.0;
    let mut den = 0.0;
    let mut tdata = Vec::with_capacity(12);
    let mut p = 0;
    while p < 12 {
        let idx = digits_of(&shape, p);
        let (a, b) = (fr(&shape, &idx, 0), fr(&shape, &idx, 1));
        f2 += x[p] * (a - b) * (a - b);
        if p != 0 && p != 11 {
            // Hudson / Bhatia et al. 2013 eq. 10, n = number of chromosomes
            num += x[p] * ((a - b) * (a - b) - a * (1.0 - a) / (2.0 - 1.0) - b * (1.0 - b) / (3.0 - 1.0));
            den += x[p] * (a * (1.0 - b) + b * (1.0 - a));
        }
        // transposed spectrum (shape 4x3): cell q = (j, i)
        let (j, i) = (p / 3, p % 3);
        tdata.push(x[i * 4 + j]);
        p += 1;
    }
    assert!(close(sfs.f2().unwrap(), f2), "f2 = sum x (f_1 - f_2)^2");
    assert!(close(sfs.fst().unwrap(), num / den), "Hudson Fst = sum of numerators / sum of denominators over polymorphic cells");
    let t: Sfs = Scs::new(tdata, Shape(vec![4, 3])).unwrap().into_state_unchecked();
    assert!(close(t.f2().unwrap(), f2), "f2 is symmetric in the two populations");
    assert!(close(t.fst().unwrap(), num / den), "Fst is symmetric in the two populations");
    kani::cover!(true);
}

/// f3(A;B,C) = sum x (a-b)(a-c) (C06) and f3 = (f2(A,B) + f2(A,C) - f2(B,C)) / 2 over the two-population
/// marginals (C14), on a normalised 2x3x3 spectrum with distinct cells.  BOUNDED as above.
#[kani::proof]
#[kani::unwind(20)]
#[kani::stub(crate::Array::<f64>::sum, sum_by_definition)]
#[kani::stub(f64::powi, powi_stub)]
fn k_stat_f3_definition() {
    let shape = [2usize, 3usize, 3usize];
    let sfs = iota_scs(&shape).into_normalized();
    let x = sfs.inner().as_slice();
    let mut f3 = 0.0;
    let mut p = 0;
    while p < 18 {
        let idx = digits_of(&shape, p);
        let (a, b, c) = (fr(&shape, &idx, 0), fr(&shape, &idx, 1), fr(&shape, &idx, 2));
        f3 += x[p] * (a - b) * (a - c);
        p += 1;
    }
    assert!(close(sfs.f3().unwrap(), f3), "f3(A;B,C) = sum x (f_A - f_B)(f_A - f_C)");
    let ab = sfs.marginalize(&[Axis(2)]).unwrap().f2().unwrap();
    let ac = sfs.marginalize(&[Axis(1)]).unwrap().f2().unwrap();
    let bc = sfs.marginalize(&[Axis(0)]).unwrap().f2().unwrap();
    assert!(close(f3, (ab + ac - bc) / 2.0), "f3(A;B,C) = (f2(A,B) + f2(A,C) - f2(B,C)) / 2");
    kani::cover!(true);
}

/// f4(A,B;C,D) = sum x (a-b)(c-d) (C06) on a normalised 2x3x2x2 spectrum with distinct cells.  BOUNDED.
#[kani::proof]
#[kani::unwind(26)]
fn k_stat_f4_definition() {
    let shape = [2usize, 3usize, 2usize, 2usize];
    let sfs = iota_scs(&shape).into_normalized();
    let x = sfs.inner().as_slice();
    let mut f4 = 0.0;
    let mut p = 0;
    while p < 24 {
        let idx = digits_of(&shape, p);
        let (a, b, c, d) = (fr(&shape, &idx, 0), fr(&shape, &idx, 1), fr(&shape, &idx, 2), fr(&shape, &idx, 3));
        f4 += x[p] * (a - b) * (c - d);
        p += 1;
    }
    assert!(close(sfs.f4().unwrap(), f4), "f4(A,B;C,D) = sum x (f_A - f_B)(f_C - f_D)");
    kani::cover!(true);
}

/// Watterson's theta = S / a_n and pi = sum_i x_i i (n - i) / C(n,2) over the interior classes (C06), on
/// count spectra with n = 3, 4, 5 chromosomes and distinct cells.  BOUNDED.
#[kani::proof]
#[kani::unwind(20)]
#[kani::stub(crate::utils::binomial, binomial_stub)]
fn k_stat_theta_pi_definition() {
    let mut len = 4usize;
    while len <= 6 {
        let scs = iota_scs(&[len]);
        let x = scs.inner().as_slice();
        let n = len - 1;
        let mut a_n = 0.0;
        let mut s = 0.0;
        let mut pi = 0.0;
        let mut i = 1;
        while i < n {
            a_n += 1.0 / i as f64;
            s += x[i];
            pi += x[i] * (i * (n - i)) as f64 / ((n * (n - 1) / 2) as f64);
            i += 1;
        }
        assert!(close(scs.theta_watterson().unwrap(), s / a_n), "Watterson's theta = S / a_n");
        assert!(close(scs.pi().unwrap(), pi), "pi = sum_i x_i i (n - i) / C(n, 2)");
        len += 1;
    }
    kani::cover!(true);
}

/// `Spectrum::normalize` / `into_normalized` (C14, also the `--normalize` step of `view`): every cell is divided by the sum
/// of all cells (ratios preserved, shape unchanged, result sums to one).  BOUNDED: one concrete 2x3 table.
#[kani::proof]
#[kani::unwind(10)]
fn k_stat_normalize_definition() {
    let shape = [2usize, 3usize];
    let scs = iota_scs(&shape);
    let x = scs.inner().as_slice();
    let mut total = 0.0;
    let mut p = 0;
    while p < 6 {
        total += x[p];
        p += 1;
    }
    let sfs = scs.clone().into_normalized();
    assert!(sfs.shape().len() == 2 && sfs.shape()[0] == 2 && sfs.shape()[1] == 3, "normalising keeps the shape");
    let y = sfs.inner().as_slice();
    let mut p = 0;
    while p < 6 {
        assert!(y[p].to_bits() == (x[p] / total).to_bits(), "cell / sum of all cells");
        p += 1;
    }
    assert!(close(sfs.sum(), 1.0), "a normalised spectrum sums to one");
    kani::cover!(true);
}

playback_tests!("h_spectrum");
