#!/bin/sh
# Offline setup: pre-build the Kani artefacts of sfs-core's dependencies so that the
# first check does not pay for them, and warm up Verus.  Nothing is fetched.
set -e
cd "$(dirname "$0")"
mkdir -p .build/playback evidence replay
export CARGO_NET_OFFLINE=true
for m in kani/incrate/*.rs; do
  b=$(basename "$m" .rs); [ "$b" = mod ] || [ "$b" = util ] || : > ".build/playback/$b.rs"
done
: > .build/playback/cli.rs
(cd /repo && cargo kani -p sfs-core --target-dir /verif/.build/kani-core --harness k_geno_try_from_raw --output-format terse >/dev/null 2>&1) || echo "warning: kani warm-up failed (checks will report it)"
(cd /repo && cargo kani -p sfs-cli --target-dir /verif/.build/kani-core -Z unstable-options -Z stubbing --exact --harness verif_kani::k_cli_fill_mapping --output-format terse >/dev/null 2>&1) || echo "warning: kani warm-up of the cli crate failed (checks will report it)"
echo setup done
